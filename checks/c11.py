"""
C11 - protfilter and parsing flags only filter; they never change what is framed.

One wire, 16 executions of the real reader: protfilter 0..7 x parsing in {True, False}.
Oracle: relational - items(F) = items(7) restricted to raws whose preamble names a protocol in
F, in order; with parsing=False every parsed value is None, raws(7,True) is a subsequence of
raws(7,False), equal on wires made only of frames their parsers accept.  Wires carry
corrupted and *nested* frames of the filtered-out protocols.
"""

from checks import common
from sim import core, link, sched, wire as W
from sim.observe import run_reader
from sim.runner import UnitResult

PROPERTY = "C11"
LEVEL = "exploration"
RULE = (
    "seeded wires (C06-style histories; unrestricted corruption; carriers whose payload holds a complete "
    "frame of another protocol; garbage) each executed under all 8 protocol masks x parsing in {T,F} on a "
    "seeded transport (SimFile or SimSocket schedule); non-trivial = wire on which mask 7 delivers items of "
    ">= 2 protocols or a nested/corrupted frame is present; distinct = distinct SHA-256 of (wire, config)"
)
ASSUMPTIONS = common.BASE_ASSUMPTIONS + [
    "protocol membership of a raw item is decided by the simulator's own preamble classifier (b5 62 / 24 / d3)",
    "if the mask-7 reference run raises or overruns its budget the wire is skipped (C08's business)",
]
REAL_VS_STUB = common.REAL_VS_STUB
QUICK_RUNS = 18000
GIANT_RUN_EVERY = 4001  # one wire in 4001 is > 65535 tiny frames of one kind and a tail frame of another protocol
LONG_RUN_EVERY = 157  # one wire in 157 starts with >= 1100 tiny frames of one or two kinds
O_SLICE_UNITS = 120
EXPECTED_PROBES = {t: ["nested_wires", "filtered_frame_contains_foreign_preamble", "all_accepted_wires", "corrupted_wires", "socket_runs"] for t in ("quick", "thorough")}


def generate(seed: int, tier: str = "quick") -> dict:
    r_cfg = core.stream(seed, "config")
    r_dev = core.stream(seed, "device")
    r_lnk = core.stream(seed, "link")
    r_sch = core.stream(seed, "sched")
    cfg = common.draw_config(r_cfg, policies=(0, 1))
    pre = core.Counters()
    n = r_cfg.choice((1, 2, 3, 4, 6, 9))
    style = r_cfg.choice(("clean", "clean", "nested", "nested", "mutated", "mixed", "garbage", "preserving"))
    if style == "preserving":
        frames = common.gen_frames(r_dev, n, cfg)
        common.corrupt_preserving(r_lnk, frames, pre, p=0.4)
        frames = common.add_noise(r_lnk, frames, pre)
    else:
        frames = common.gen_mixed_frames(r_dev, r_lnk, n, cfg, pre, style=style)
    if seed % LONG_RUN_EVERY == LONG_RUN_EVERY - 1:
        run, _style = common.long_run_frames(r_dev, pre)
        frames = [dict(f, kind="garbage") if f["kind"] == "noise" else f for f in run] + frames[:3]
    giant = seed % GIANT_RUN_EVERY == GIANT_RUN_EVERY - 1
    if giant:
        frames, _style = common.giant_run_frames(r_dev, pre)
    if r_cfg.random() < 0.3:
        cfg["decoy"] = True
        cfg["decoy_protfilter"] = r_cfg.choice((0, 1, 2, 4, 3, 5, 6, 7))
        cfg["decoy_policy"] = r_cfg.choice((0, 1, 2))
        cfg["decoy_parsing"] = r_cfg.choice((True, False))
    spans = sched.spans_of(frames)
    wire_len = spans[-1][1] if spans else 0
    tr = common.draw_transport(r_sch, wire_len, spans, kinds=("file", "file", "socket")) if not giant else {"kind": "file"}
    if giant:
        tr = r_sch.choice(({"kind": "file"}, {"kind": "bytesio"}, {"kind": "socket", "segments": [[0.0, wire_len]], "timeout": 2.0, "end": "close"}))
        cfg["bufsize"] = 4096
    elif tr["kind"] == "socket":
        cfg["bufsize"] = r_sch.choice(sched.BUFSIZES)
    elif r_sch.random() < 0.12:
        tr = {"kind": "bytesio"}
    elif r_sch.random() < 0.06:
        tr = {"kind": "pipe"}
    elif r_sch.random() < 0.25:
        # a stream that hands out at most `cap` bytes per call: frames larger than the cap are
        # lost to "stream terminated" errors - under every mask alike
        tr = {"kind": "capfile", "cap": r_sch.choice((3, 7, 16, 20, 21, 22, 24, 40, 64))}
    cfg["handler_kind"] = r_cfg.choice(("function", "function", "returns_false", "returns_value", "method"))
    return {"seed": seed, "config": cfg, "frames": frames, "transport": tr, "style": style, "pre_faults": dict(pre)}


def _subsequence(a, b):
    it = iter(b)
    return all(any(x == y for y in it) for x in a)


def _run(scn, res=None):
    cfg0 = scn["config"]
    wire = link.wire_of(scn["frames"])
    runs = {}
    for parsing in (True, False):
        for mask in range(8):
            cfg = dict(cfg0, protfilter=mask, parsing=parsing)
            if mask == 7 and parsing:
                cfg["quitonerror"], cfg["handler"] = 1, True  # reference run records rejections
            out = run_reader(wire, cfg, scn["transport"])
            runs[(mask, parsing)] = out
            if res is not None:
                res.evaluations += 1
                res.sim_seconds += out.transport.sim_seconds
    ref = runs[(7, True)]
    rejected = [e for e in ref.events if e[0] == "E"]
    if ref.hang or ref.exc or runs[(7, False)].hang or runs[(7, False)].exc:
        if res is not None:
            res.skipped_base_failed += 1
        return None
    if res is not None:
        c = res.counters
        for k, v in (scn.get("pre_faults") or {}).items():
            c.hit(k, v)
        link.count_fired(scn["frames"], c)
        protos = {W.proto_of(r) for r, _ in ref.items}
        nested = scn.get("style") == "nested"
        if nested:
            c.hit("nested_wires")
        for r, _ in ref.items:
            body = r[2:]
            if b"\xb5\x62" in body or b"\x24" in body or b"\xd3" in body:
                c.hit("filtered_frame_contains_foreign_preamble")
                break
        if any(f.get("faults") for f in scn["frames"]):
            c.hit("corrupted_wires")
        if ref.items and not rejected:
            c.hit("all_accepted_wires")
        c.hit(scn["transport"]["kind"] + "_runs")
        if scn["transport"]["kind"] == "capfile":
            c.hit("fault_capped_read", ref.transport.capped_reads)
        c.hit("items_mask7", len(ref.items))
        res.log((wire, sorted(cfg0.items())), len(protos) >= 2 or nested or any(f.get("faults") for f in scn["frames"]))
    for parsing in (True, False):
        base = runs[(7, parsing)]
        for mask in range(8):
            out = runs[(mask, parsing)]
            tag = f"mask={mask} parsing={parsing}"
            if out.hang:
                return ("filtered_run_hangs", f"{tag}: {out.hang}")
            if out.exc:
                return ("filtered_run_raises", f"{tag}: {out.exc}")
            want = [(r, p) for r, p in base.items if W.PROTO_BIT.get(W.proto_of(r), 0) & mask]
            if out.items != want:
                return (
                    "mask_changes_items" if parsing else "mask_changes_items_parsing_off",
                    f"{tag}: got {len(out.items)} items {[r.hex()[:40] for r, _ in out.items][:5]}, mask 7 restricted to the mask gives {len(want)} {[r.hex()[:40] for r, _ in want][:5]}",
                )
            if not parsing and any(p is not None for _, p in out.items):
                return ("parsed_not_none_with_parsing_off", f"{tag}")
    raws_t = runs[(7, True)].raws()
    raws_f = runs[(7, False)].raws()
    # Every frame delivered with parsing on must be accounted for with parsing off: delivered as
    # the same bytes, or lying inside a (larger) raw delivered there.  The second alternative keeps
    # the clause sound for an implementation that re-synchronises inside a frame its parser
    # rejected - something only a parsing reader can know - while a frame that parsing=False
    # loses altogether is still reported.  The match is made on CONTENT, in order (each on-raw must
    # be a substring of an off-raw at or after the previous match), never on wire offsets: with
    # nested or repeated frames the same bytes occur at several offsets of the wire.
    j, p = 0, 0
    for r in raws_t:
        while j < len(raws_f):
            i = raws_f[j].find(r, p)
            if i >= 0:
                p = i + len(r)
                break
            j, p = j + 1, 0
        else:
            return (
                "parsing_off_changes_framing",
                f"frame {r.hex()[:60]} is delivered with parsing on but (in order) no raw delivered with parsing off contains it (parsing off: {[x.hex()[:40] for x in raws_f][:6]})",
            )
    if not rejected and raws_t != raws_f:
        return ("parsing_off_changes_framing_on_accepted_wire", f"no frame was rejected, yet raws differ: on={len(raws_t)} off={len(raws_f)}")
    return None


def execute(scn):
    return _run(scn)


def run_unit(unit) -> UnitResult:
    res = UnitResult()
    scn = generate(unit["seed"])
    res.runs = 1
    v = _run(scn, res)
    if unit["seed"] % 1201 == 0:
        res.samples.append(common.sample_of(scn))
    if v is not None:
        bad = dict(scn)
        bad["clause"], bad["detail"] = v
        res.violations.append(bad)
    return res


def batches(tier, base_seed):
    return common.seed_batches(tier, base_seed, QUICK_RUNS, batch=100)
