"""One module per claimed property: scenario generator + executor/oracle."""
