"""
C05 - checksum validation never lets a malformed or corrupted frame through.

The simulated device emits a valid frame; the link applies a fault sequence (substitution,
insertion, deletion, truncation, burst, bit flip, and `reseal` = a middlebox recomputing the
checksum over damaged bytes while leaving the length field stale); the result reaches
(a) UBXReader.parse(x, validate=VALCKSUM) as one datagram under every msgmode and
(b) the stream reader, embedded in a byte stream.
Oracle: the simulator's own well-formedness reference (own Fletcher-8):
  A  parse returned a message              => well_formed(x)        (all inputs)
  B  not well_formed(x), x = faults(valid) => UBXParseError raised  (no other type, no return)
  C  VALNONE: only the two checksum bytes altered => same attributes as the intact frame
Quick tier: EVERY single fault on a basket of frames (each position x each of 255 values,
every insertion point, every deletion, every truncation, resealed twins), and EVERY value of the 16-bit checksum field on a ladder of
frames whose checksummed length sits on block-size boundaries (255/256/257/512/1024 bytes).
"""

from checks import common
from sim import core, device, link, sched, wire as W
from sim.observe import run_reader
from sim.runner import UnitResult

PROPERTY = "C05"
LEVEL = "fault_enumeration"
RULE = (
    "fault enumeration: for each basket frame every single-byte substitution (position x 255 values), every "
    "insertion point x {00, ff, b5, 62, 2 position-derived bytes, 2-byte strings}, every deletion of 1-2 bytes, every "
    "truncation length, each insertion/deletion/truncation also with the checksum resealed and header "
    "substitutions resealed, delivered to parse() under msgmodes GET/SET/POLL/SETPOLL; plus seeded "
    "multi-fault sequences (2-6 faults, bursts, reseal) over frames of the whole message catalogue, "
    "near-frames shorter than 8 bytes, arbitrary byte strings of length 0-16, and corrupted frames "
    "embedded in streams read by UBXReader; non-trivial = the faulted input differs from the emitted "
    "frame; distinct = distinct faulted inputs (SHA-256 of bytes + msgmode)"
)
ASSUMPTIONS = common.BASE_ASSUMPTIONS + [
    "well-formedness reference: len >= 8, sync b5 62, LE16 length field = len-8, last two bytes = own Fletcher-8 of bytes 2..len-3",
    "a well-formed input may still raise UBXMessageError (unknown type for the mode); that is not judged here",
]
REAL_VS_STUB = common.REAL_VS_STUB
QUICK_RUNS = 36000
EXPECTED_PROBES = {
    t: ["fault_sub", "fault_ins", "fault_del", "fault_trunc", "fault_reseal", "accepted_well_formed_after_fault", "zero_length_frame_insertions", "rejected_UBXParseError", "valnone_cases", "stream_cases", "stale_length_valid_checksum", "checksum_field_values", "short_inputs", "sync_field_values", "reencoded_inputs"]
    for t in ("quick", "thorough")
}

BASKET = [
    ("MON-VER poll (len 0)", W.ubx_frame(0x0A, 0x04, b"")),
    ("CFG-PRT poll (len 0)", W.ubx_frame(0x06, 0x00, b"")),
    ("cls+id = 0 mod 256 (len 0, checksum 00 cls)", W.ubx_frame(0x01, 0xFF, b"")),
    ("ACK-ACK (len 2)", W.ubx_frame(0x05, 0x01, b"\x06\x01")),
    ("CFG-TP5 poll (len 1)", W.ubx_frame(0x06, 0x31, b"\x00")),
    ("CFG-MSG (len 8)", W.ubx_frame(0x06, 0x01, bytes.fromhex("f004000100000000"))),
    ("NAV-TIMEUTC-like, checksum byte 00", W.ubx_frame(0x01, 0x21, bytes(19) + b"\x0b")),
    ("NAV-POSLLH (len 28)", W.ubx_frame(0x01, 0x02, bytes(range(28)))),
    ("NAV-PVT (len 92)", W.ubx_frame(0x01, 0x07, bytes((i * 7) & 0xFF for i in range(92)))),
    ("unknown class (len 3)", W.ubx_frame(0x66, 0x77, b"abc")),
]
MSGMODES = (0, 1, 2, 3)

# length ladder: frames whose class..payload length sits on and around block-size boundaries
# (256, 512, 1024 bytes); for these EVERY value of the 16-bit checksum field is tried.
LADDER = [
    ("ACK-ACK (content 6)", W.ubx_frame(0x05, 0x01, b"\x06\x01")),
    ("content 255", W.ubx_frame(0x02, 0x13, bytes((i * 13 + 1) & 0xFF for i in range(251)))),
    ("content 256", W.ubx_frame(0x02, 0x13, bytes((i * 29 + 3) & 0xFF for i in range(252)))),
    ("content 257", W.ubx_frame(0x02, 0x13, bytes((i * 31 + 5) & 0xFF for i in range(253)))),
    ("content 512", W.ubx_frame(0x02, 0x15, bytes((i * 37 + 7) & 0xFF for i in range(508)))),
    ("content 1024", W.ubx_frame(0x0A, 0x04, bytes((i * 41 + 9) & 0xFF for i in range(1020)))),
]
LADDER_N = {"quick": 5, "thorough": 6, "selftest": 1}


_INSTANCES = {}  # (validate, msgmode) -> a reader configured the other way round


def _ubx_errors():
    import pyubx2.exceptions as ube  # pylint: disable=import-outside-toplevel

    return ube.UBXParseError, (ube.UBXMessageError, ube.UBXTypeError, ube.UBXStreamError)


def _parse(x, msgmode, validate=1):
    """('ret', msg) | ('parse_error', err) | ('other_ubx', err) | ('foreign', err)"""
    from pyubx2 import UBXReader  # pylint: disable=import-outside-toplevel

    perr, others = _ubx_errors()
    parse = UBXReader.parse
    if (len(x) + (x[-1] if x else 0)) % 5 == 0:
        # the static method reached through an instance whose own settings are the opposite ones: what the
        # caller passes decides, not what the reader that happens to be at hand was configured with
        key = (validate, msgmode)
        if key not in _INSTANCES:
            import io  # pylint: disable=import-outside-toplevel

            _INSTANCES[key] = UBXReader(io.BytesIO(b""), validate=0 if validate else 1, msgmode={0: 1, 1: 0, 2: 0, 3: 0}.get(msgmode, 0), quitonerror=0, parsing=False)
        parse = _INSTANCES[key].parse
    try:
        return ("ret", parse(x, msgmode=msgmode, validate=validate))
    except perr as err:
        return ("parse_error", err)
    except others as err:
        return ("other_ubx", err)
    except Exception as err:  # pylint: disable=broad-except
        return ("foreign", err)


def judge_datagram(x: bytes, msgmode: int, from_valid: bool):
    wf = W.ubx_well_formed(x)
    kind, val = _parse(x, msgmode)
    if kind == "ret" and not wf:
        return ("malformed_input_accepted", f"parse({x.hex()}, msgmode={msgmode}, VALCKSUM) returned {val!r} but the input is not a well-formed frame")
    if from_valid and not wf and kind != "parse_error":
        return ("corruption_not_rejected_with_UBXParseError", f"parse({x.hex()}, msgmode={msgmode}) -> {kind}: {type(val).__name__}: {val}")
    return None


def _public(msg):
    return (msg.identity, msg.payload, msg.msgmode, sorted((k, repr(v)) for k, v in msg.__dict__.items() if not k.startswith("_")))


def judge_valnone(frame: bytes, ck: bytes, msgmode: int):
    bad = frame[:-2] + ck
    k1, v1 = _parse(frame, msgmode, validate=1)
    k2, v2 = _parse(bad, msgmode, validate=0)
    if k1 == "ret":
        if k2 != "ret":
            return ("valnone_rejects_bad_checksum", f"parse({bad.hex()}, VALNONE, msgmode={msgmode}) -> {type(v2).__name__}: {v2}")
        if _public(v1) != _public(v2):
            return ("valnone_attributes_differ", f"{bad.hex()} msgmode={msgmode}: {_public(v2)} != {_public(v1)}")
    elif k2 == "ret" or type(v1) is not type(v2):  # pylint: disable=unidiomatic-typecheck
        return ("valnone_outcome_differs", f"intact frame -> {k1} {type(v1).__name__}, corrupted checksum with VALNONE -> {k2} {type(v2).__name__ if k2 != 'ret' else v2!r}")
    # the very bytes VALNONE has just let through must still be refused under VALCKSUM
    k3, v3 = _parse(bad, msgmode, validate=1)
    if k3 == "ret":
        return ("malformed_input_accepted_after_valnone_parse", f"parse({bad.hex()}, VALCKSUM, msgmode={msgmode}) returned {v3!r} right after the same bytes were parsed with VALNONE")
    if k3 != "parse_error":
        return ("corruption_not_rejected_with_UBXParseError", f"parse({bad.hex()}, VALCKSUM) after a VALNONE parse -> {k3}: {type(v3).__name__}")
    return None


def judge_stream(scn):
    cfg = dict(scn["config"], validate=1, parsing=True)
    wire = link.wire_of(scn["frames"])
    out = run_reader(wire, cfg, scn["transport"])
    if out.hang or (out.exc and cfg.get("quitonerror") != 2):
        return None, out
    for raw, parsed in out.items:
        if raw[0:2] == b"\xb5\x62" and parsed is not None and not W.ubx_well_formed(raw):
            return ("reader_delivers_malformed_ubx_as_parsed", f"raw {raw.hex()} parsed as {parsed[2][:80]}"), out
    return None, out


def execute(scn):
    mode = scn.get("mode")
    if mode == "datagram":
        x = link.frame_bytes(scn["frames"][0])
        return judge_datagram(x, scn["msgmode"], scn.get("from_valid", True))
    if mode == "valnone":
        return judge_valnone(bytes.fromhex(scn["frames"][0]["hex"]), bytes.fromhex(scn["ck"]), scn["msgmode"])
    if mode == "stream":
        return judge_stream(scn)[0]
    raise ValueError(mode)


# ---------------------------------------------------------------------------------------


def _check_one(res, frame_hex, faults, msgmodes, note, from_valid=True):
    fr = {"kind": "ubx", "hex": frame_hex, "faults": faults, "note": note}
    x = link.frame_bytes(fr)
    orig = bytes.fromhex(frame_hex)
    c = res.counters
    for flt in faults:
        c.hit("fault_" + flt["k"])
    wf = W.ubx_well_formed(x)
    if wf and x != orig:
        c.hit("accepted_well_formed_after_fault")
    if any(f["k"] == "reseal" for f in faults) and not wf and len(x) >= 8 and x[-2:] == W.fletcher8(x[2:-2]):
        c.hit("stale_length_valid_checksum")
    for mm in msgmodes:
        v = judge_datagram(x, mm, from_valid)
        res.evaluations += 1
        res.log((x, mm), x != orig)
        if v is None:
            if not wf:
                c.hit("rejected_UBXParseError")
        elif len(res.violations) < 4:
            res.violations.append({"seed": 0, "mode": "datagram", "frames": [fr], "msgmode": mm, "from_valid": from_valid, "clause": v[0], "detail": v[1]})


def _sweep_unit(unit, res):
    note, frame = BASKET[unit.get("basket", 0)]
    hx = frame.hex()
    n = len(frame)
    what = unit["sweep"]
    zero_len = n == 8
    if what == "sub":
        lo, hi = unit["range"]
        for pos in range(lo, min(hi, n)):
            for val in range(256):
                if val == frame[pos]:
                    continue
                mms = (0, 1 + (pos + val) % 3)
                _check_one(res, hx, [{"k": "sub", "pos": pos, "val": val}], mms, note)
                if pos < 6 and val % 16 == 0:
                    _check_one(res, hx, [{"k": "sub", "pos": pos, "val": val}, {"k": "reseal"}], MSGMODES, note)
    elif what == "ins":
        for pos in range(n + 1):
            ins = ["00", "ff", "b5", "62", f"{(pos * 37 + 11) & 0xFF:02x}", f"{(pos * 91 + 5) & 0xFF:02x}", "0000", "4a55", "b562", "0102" + "03" * (pos % 3)]
            for h in ins:
                _check_one(res, hx, [{"k": "ins", "pos": pos, "hex": h}], MSGMODES, note)
                _check_one(res, hx, [{"k": "ins", "pos": pos, "hex": h}, {"k": "reseal"}], MSGMODES, note)
                if zero_len:
                    res.counters.hit("zero_length_frame_insertions")
    elif what == "del":
        for pos in range(n):
            for k in (1, 2):
                _check_one(res, hx, [{"k": "del", "pos": pos, "n": k}], MSGMODES, note)
                _check_one(res, hx, [{"k": "del", "pos": pos, "n": k}, {"k": "reseal"}], MSGMODES, note)
    elif what == "trunc":
        for ln in range(n):
            _check_one(res, hx, [{"k": "trunc", "len": ln}], MSGMODES, note)
            _check_one(res, hx, [{"k": "trunc", "len": ln}, {"k": "reseal"}], MSGMODES, note)
    elif what == "ckfield":
        note, frame = LADDER[unit["ladder"]]
        hx = frame.hex()
        n = len(frame)
        for hi in range(unit["range"][0], unit["range"][1]):
            for lo in range(256):
                ck = bytes((hi, lo))
                if ck == frame[-2:]:
                    continue
                fr = {"kind": "ubx", "hex": hx, "faults": [{"k": "burst", "pos": n - 2, "hex": ck.hex()}], "note": note}
                x = frame[:-2] + ck
                v = judge_datagram(x, 0, True)
                res.evaluations += 1
                res.counters.hit("checksum_field_values")
                res.counters.hit("fault_burst")
                if v is not None and len(res.violations) < 4:
                    res.violations.append({"seed": 0, "mode": "datagram", "frames": [fr], "msgmode": 0, "from_valid": True, "clause": v[0], "detail": v[1]})
        res.log(("ckfield", unit["ladder"], unit["range"]), True)
    elif what == "short":
        # every class/id x extreme length fields, truncated to fewer than 8 bytes: what is left of a
        # valid frame (e.g. one announcing 65535 payload bytes) when the link dies right after the header
        for cls in range(unit["range"][0], unit["range"][1]):
            for mid in range(256):
                for lenf in (b"\x00\x00", b"\x01\x00", b"\xff\x00", b"\x00\xff", b"\xfe\xff", b"\xff\xff"):
                    head = bytes((0xB5, 0x62, cls, mid)) + lenf
                    ck = W.fletcher8(head[2:])
                    for x in (head, head + ck[0:1], head + ck[1:2], head[:5], head[:4], head + lenf[1:2]):
                        v = judge_datagram(x, 0, True)
                        res.evaluations += 1
                        if v is not None and len(res.violations) < 4:
                            res.violations.append({"seed": 0, "mode": "datagram", "frames": [{"kind": "ubx", "hex": x.hex(), "faults": [], "note": "truncated header of a frame with an extreme length field"}], "msgmode": 0, "from_valid": True, "clause": v[0], "detail": v[1]})
                res.counters.hit("short_inputs", 36)
                res.counters.hit("fault_trunc", 36)
        res.log(("short", unit["range"]), True)
    elif what == "syncfield":
        # every value of the two sync bytes (the checksum does not cover them)
        note, frame = LADDER[unit["ladder"]]
        hx = frame.hex()
        for hi in range(unit["range"][0], unit["range"][1]):
            for lo in range(256):
                if (hi, lo) == (0xB5, 0x62):
                    continue
                x = bytes((hi, lo)) + frame[2:]
                v = judge_datagram(x, 0, True)
                res.evaluations += 1
                res.counters.hit("sync_field_values")
                res.counters.hit("fault_burst")
                if v is not None and len(res.violations) < 4:
                    fr = {"kind": "ubx", "hex": hx, "faults": [{"k": "burst", "pos": 0, "hex": bytes((hi, lo)).hex()}], "note": note}
                    res.violations.append({"seed": 0, "mode": "datagram", "frames": [fr], "msgmode": 0, "from_valid": True, "clause": v[0], "detail": v[1]})
        res.log(("syncfield", unit["ladder"], unit["range"]), True)
    elif what == "valnone":
        for a in range(256):
            for b in (frame[-1], (frame[-1] + 1) & 0xFF, 0x00, 0xFF):
                ck = bytes((a, b))
                if ck == frame[-2:]:
                    continue
                for mm in MSGMODES:
                    v = judge_valnone(frame, ck, mm)
                    res.evaluations += 2
                    res.counters.hit("valnone_cases")
                    res.log(("valnone", frame, ck, mm), True)
                    if v is not None and len(res.violations) < 4:
                        res.violations.append({"seed": 0, "mode": "valnone", "frames": [{"kind": "ubx", "hex": hx, "faults": [], "note": note}], "ck": ck.hex(), "msgmode": mm, "clause": v[0], "detail": v[1]})
    res.runs += 1


def _seeded_unit(unit, res):
    seed = unit["seed"]
    rng = core.stream(seed, "device")
    lnk = core.stream(seed, "link")
    res.runs += 1
    roll = rng.random()
    if roll < 0.5:
        # multi-fault sequence over a frame from the whole catalogue
        fr_bytes, note = device.ubx_any(rng) if rng.random() < 0.7 else device.ubx_common(rng)
        if len(fr_bytes) > 300:
            fr_bytes, note = device.ubx_common(rng)
        faults, cur = [], fr_bytes
        for _ in range(rng.randrange(1, 7)):
            f = link.any_fault(lnk, cur)
            faults.append(f)
            cur = link.apply_faults(cur, [f])
        if lnk.random() < 0.5:
            faults.append({"k": "reseal"})
        _check_one(res, fr_bytes.hex(), faults, MSGMODES, note)
    elif roll < 0.55:
        # the same frame in another spelling: whatever else it is, it is not a frame that begins with b5 62
        fr_bytes, note = device.ubx_common(rng) if rng.random() < 0.6 else device.ubx_any(rng)
        if len(fr_bytes) > 200:
            fr_bytes, note = device.ubx_common(rng)
        import base64  # pylint: disable=import-outside-toplevel

        hx = fr_bytes.hex()
        forms = [
            hx.encode(), hx.upper().encode(), " ".join(hx[i : i + 2] for i in range(0, len(hx), 2)).encode(), hx.encode() + b"\r\n",
            b"0x" + hx.encode(), base64.b64encode(fr_bytes), fr_bytes[::-1], bytes(b ^ 0xFF for b in fr_bytes),
            fr_bytes.decode("latin-1").encode("utf-8"), b"".join(bytes((b, b)) for b in fr_bytes),
        ]
        x = rng.choice(forms)
        if x[:2] != b"\xb5\x62" or not W.ubx_well_formed(x):
            _check_one(res, x.hex(), [], MSGMODES, "re-encoded " + note, from_valid=False)
            res.counters.hit("reencoded_inputs")
    elif roll < 0.6:
        # near-frames shorter than 8 bytes and arbitrary byte strings (clause A only)
        if rng.random() < 0.5:
            body = bytes((rng.randrange(256), rng.randrange(256))) + rng.choice((b"\x00\x00", b"\x00", b"", b"\x01\x00"))
            x = b"\xb5\x62" + body
            x = x + W.fletcher8(x[2:])[: rng.randrange(0, 3)]
            x = x[: rng.randrange(0, 8)] if rng.random() < 0.3 else x
        else:
            x = device.garbage(rng, n=rng.randrange(0, 17), alphabet=device.FRAME_ALPHABET)
        _check_one(res, x.hex(), [], MSGMODES, "arbitrary bytes", from_valid=False)
    elif roll < 0.7:
        fr_bytes, note = device.ubx_any(rng)
        ck = bytes((rng.randrange(256), rng.randrange(256)))
        if ck != fr_bytes[-2:]:
            for mm in MSGMODES:
                v = judge_valnone(fr_bytes, ck, mm)
                res.evaluations += 2
                res.counters.hit("valnone_cases")
                res.log(("valnone", fr_bytes, ck, mm), True)
                if v is not None:
                    res.violations.append({"seed": seed, "mode": "valnone", "frames": [{"kind": "ubx", "hex": fr_bytes.hex(), "faults": [], "note": note}], "ck": ck.hex(), "msgmode": mm, "clause": v[0], "detail": v[1]})
    else:
        # stream delivery: corrupted frames embedded in a byte stream
        r_cfg = core.stream(seed, "config")
        r_sch = core.stream(seed, "sched")
        cfg = common.draw_config(r_cfg, policies=(0, 1, 2), protfilters=(7, 2, 3, 6))
        pre = core.Counters()
        frames = common.gen_mixed_frames(rng, lnk, r_cfg.choice((1, 2, 3, 5)), cfg, pre, style=r_cfg.choice(("mutated", "mixed")))
        for f in frames:
            if f["kind"] == "ubx" and f["faults"] and lnk.random() < 0.5 and not any(x["k"] == "reseal" for x in f["faults"]):
                f["faults"].append({"k": "reseal"})
        spans = sched.spans_of(frames)
        tr = common.draw_transport(r_sch, spans[-1][1] if spans else 0, spans)
        if tr["kind"] == "socket":
            cfg["bufsize"] = r_sch.choice(sched.BUFSIZES)
        scn = {"seed": seed, "mode": "stream", "config": cfg, "frames": frames, "transport": tr}
        v, out = judge_stream(scn)
        res.evaluations += 1
        res.counters.hit("stream_cases")
        res.counters.hit("stream_ubx_items", sum(1 for r, p in out.items if r[0:2] == b"\xb5\x62" and p is not None))
        link.count_fired(frames, res.counters)
        res.sim_seconds += out.transport.sim_seconds
        res.log((link.wire_of(frames), sorted(cfg.items())), any(f["faults"] for f in frames))
        if seed % 1013 == 0:
            res.samples.append(common.sample_of(scn))
        if v is not None:
            scn["clause"], scn["detail"] = v
            res.violations.append(scn)


def run_unit(unit) -> UnitResult:
    res = UnitResult()
    if "sweep" in unit:
        _sweep_unit(unit, res)
        if unit["sweep"] == "trunc":
            note, frame = BASKET[unit["basket"]]
            res.samples.append({"basket_frame": note, "hex": frame.hex(), "example_fault": [{"k": "trunc", "len": len(frame) - 1}, {"k": "reseal"}]})
    else:
        _seeded_unit(unit, res)
    return res


def batches(tier, base_seed):
    nb = len(BASKET) if tier != "selftest" else 2
    for b in range(nb):
        n = len(BASKET[b][1])
        for what in ("ins", "del", "trunc", "valnone"):
            yield [{"sweep": what, "basket": b}]
        step = 8
        for lo in range(0, n, step):
            yield [{"sweep": "sub", "basket": b, "range": [lo, lo + step]}]
    for lo in range(0, 256, 16 if tier != "selftest" else 256):
        yield [{"sweep": "short", "range": [lo, lo + 16 if tier != "selftest" else 2]}]
    for lad in (0, 2) if tier != "selftest" else ():
        for hi in range(0, 256, 32):
            yield [{"sweep": "syncfield", "ladder": lad, "range": [hi, hi + 32]}]
    for lad in range(LADDER_N.get(tier, 5)):
        for hi in range(0, 256, 16):
            yield [{"sweep": "ckfield", "ladder": lad, "range": [hi, hi + 16]}]
    yield from common.seed_batches(tier, base_seed, QUICK_RUNS)


def finish_evidence(ev, total, tier):
    ev["coverage"]["exhaustive"] = False
    ev["coverage"]["exhaustive_part"] = (
        f"complete single-fault sweep of the {len(BASKET)} basket frames (every position x every replacement value; every "
        "insertion point, deletion and truncation, each also resealed); the multi-fault and stream parts are sampled"
    )
    ev["coverage"]["basket"] = [n for n, _ in BASKET]
    ev["coverage"]["checksum_field_ladder"] = [n for n, _ in LADDER[: LADDER_N.get(tier, 5)]]
