"""Helpers shared by the per-property checks."""

from sim import core, device, link, sched
from sim.observe import canon_exc, canon_parsed

_PROTO_ERRS = None

REAL_VS_STUB = {
    "real": [
        "pyubx2.UBXReader / SocketWrapper / UBXMessage / helpers / tables (imported from /repo/src)",
        "pynmeagps.NMEAReader.parse, pyrtcm.RTCMReader.parse (installed packages)",
        "threading.Thread workers (C13), parked so that exactly one runs",
    ],
    "stub": [
        "socket: SimSocket(socket.socket) - recv/send/settimeout overridden, never connected",
        "file: SimFile(io.BytesIO) with call ledger and step budget",
        "serial port: SimSerial (pyserial read/readline semantics with timeout)",
        "receiver / caster / host peers: seeded frame generators",
        "link: typed fault injector; clock: virtual",
    ],
}

BASE_ASSUMPTIONS = [
    "CPython 3.12 semantics; pynmeagps and pyrtcm as the definitions of NMEA / RTCM3 acceptance",
    "the simulator's own Fletcher-8 / NMEA XOR / CRC-24Q code (cross-checked in `dst.py selftest`)",
    "a clean batch is evidence over the sampled schedules and fault sequences, not a proof",
]


def proto_errors():
    """Tuple of the protocol error classes of the three libraries."""
    global _PROTO_ERRS  # pylint: disable=global-statement
    if _PROTO_ERRS is None:
        import pynmeagps.exceptions as nme  # pylint: disable=import-outside-toplevel
        import pyrtcm.exceptions as rte  # pylint: disable=import-outside-toplevel
        import pyubx2.exceptions as ube  # pylint: disable=import-outside-toplevel

        errs = []
        for mod in (ube, nme, rte):
            for name in dir(mod):
                obj = getattr(mod, name)
                if isinstance(obj, type) and issubclass(obj, Exception) and obj.__module__ == mod.__name__:
                    errs.append(obj)
        _PROTO_ERRS = tuple(errs)
    return _PROTO_ERRS


def proto_error_names():
    return {e.__module__ + "." + e.__name__ for e in proto_errors()}


def static_parse(kind: str, data: bytes, cfg: dict):
    """
    What the protocol's own static parser does with these bytes under the reader's options.
    Returns ("ok", canon_parsed) | ("rej", (exc type, message)) | ("foreign", (type, message)).
    """
    from pynmeagps import NMEAReader  # pylint: disable=import-outside-toplevel
    from pyrtcm import RTCMReader  # pylint: disable=import-outside-toplevel
    from pyubx2 import UBXReader  # pylint: disable=import-outside-toplevel

    try:
        if kind == "ubx":
            p = UBXReader.parse(
                data,
                msgmode=cfg.get("msgmode", 0),
                validate=cfg.get("validate", 1),
                parsebitfield=cfg.get("parsebitfield", 1),
            )
        elif kind == "nmea":
            p = NMEAReader.parse(data, validate=cfg.get("validate", 1), msgmode=cfg.get("msgmode", 0))
        elif kind == "rtcm":
            p = RTCMReader.parse(data, validate=cfg.get("validate", 1), labelmsm=cfg.get("labelmsm", 1))
        else:
            raise ValueError(kind)
        return ("ok", canon_parsed(p))
    except proto_errors() as err:
        return ("rej", canon_exc(err))
    except Exception as err:  # pylint: disable=broad-except
        return ("foreign", canon_exc(err))


def draw_config(rng, policies=(0, 1), protfilters=(7,), parsing=(True,)):
    return {
        "msgmode": rng.choices((0, 1, 2, 3), weights=(50, 15, 12, 23))[0],
        "validate": rng.choice((1, 1, 1, 1, 0, 0, 0, 3, 2)),
        "parsebitfield": rng.choice((1, 1, 0)),
        "labelmsm": rng.choice((1, 1, 2)),
        "protfilter": rng.choice(protfilters),
        "quitonerror": rng.choice(policies),
        "parsing": rng.choice(parsing),
        "handler": True,
    }


def draw_transport(rng, wire_len, spans, kinds=("file", "socket"), ends=("close", "timeout")):
    kind = rng.choice(kinds)
    if kind == "file":
        return {"kind": "file"}
    sizes = sched.random_segments(rng, wire_len, spans)
    end = rng.choice(ends)
    timeout = rng.choice((None, 2.0, 5.0)) if end != "timeout" else rng.choice((2.0, 5.0))
    return {
        "kind": kind,
        "segments": sched.timed_segments(rng, sizes, timeout),
        "timeout": timeout,
        "end": end,
        "host_delay": rng.choice((0.0, 0.0, 0.001, 0.05)),
    }


def modes_for(msgmode: int):
    return {0: (0,), 1: (1,), 2: (2,), 3: (1, 2)}[msgmode]


def gen_frames(rng, n, cfg, mix=None, variant_fault=False, serial0=1, mode_bias=0.8):
    """n frames from the three sources as scenario frame dicts."""
    frames = []
    modes = modes_for(cfg["msgmode"]) if rng.random() < mode_bias else None
    for i in range(n):
        kind, data, note = device.frame_any(
            rng, serial=serial0 + i, mix=mix, variant_fault=variant_fault, modes=modes
        )
        frames.append({"kind": kind, "hex": data.hex(), "faults": [], "note": note})
    return frames


def frame_level_faults(rng, frames, counters, p=0.25):
    """drop / duplicate / reorder on the frame list (history faults)."""
    if not frames or rng.random() > p * 2:
        return frames
    frames = list(frames)
    for _ in range(rng.randrange(1, 4)):
        if not frames:
            break
        k = rng.choice(("drop", "dup", "swap", "rotate"))
        i = rng.randrange(len(frames))
        if k == "drop":
            del frames[i]
            counters.hit("fault_drop")
        elif k == "dup":
            frames.insert(rng.randrange(i, len(frames) + 1), dict(frames[i], note=frames[i]["note"] + " (dup)"))
            counters.hit("fault_duplicate")
        elif k == "swap" and len(frames) > 1:
            j = rng.randrange(len(frames))
            if i != j:
                frames[i], frames[j] = frames[j], frames[i]
                counters.hit("fault_reorder")
        elif k == "rotate" and len(frames) > 2:
            w = rng.randrange(2, min(5, len(frames)) + 1)
            s = rng.randrange(0, len(frames) - w + 1)
            frames[s : s + w] = frames[s + 1 : s + w] + frames[s : s + 1]
            counters.hit("fault_reorder")
    return frames


def add_noise(rng, frames, counters, p=0.2):
    out = []
    for f in frames:
        if rng.random() < p:
            out.append({"kind": "noise", "hex": device.noise_safe(rng).hex(), "faults": [], "note": "noise"})
            counters.hit("fault_noise")
        out.append(f)
    if rng.random() < p:
        out.append({"kind": "noise", "hex": device.noise_safe(rng).hex(), "faults": [], "note": "noise"})
        counters.hit("fault_noise")
    return out


def corrupt_preserving(rng, frames, counters, p=0.15):
    for f in frames:
        if f["kind"] in ("ubx", "nmea", "rtcm") and rng.random() < p:
            flt = link.boundary_preserving(rng, f["kind"], link.frame_bytes(f))
            if flt:
                f["faults"] = list(f.get("faults") or ()) + [flt]
                counters.hit("fault_corrupt_" + f["kind"])


def sample_of(scn, limit=6):
    """Trimmed scenario for the evidence file."""
    s = {k: v for k, v in scn.items() if k not in ("frames",)}
    if "frames" in scn:
        s["frames"] = [
            {"kind": f["kind"], "hex": f["hex"][:64] + ("..." if len(f["hex"]) > 64 else ""), "faults": f.get("faults"), "note": f.get("note")}
            for f in scn["frames"][:limit]
        ]
        s["n_frames"] = len(scn["frames"])
    tr = s.get("transport")
    if tr and tr.get("segments") and len(tr["segments"]) > 12:
        s["transport"] = dict(tr, segments=tr["segments"][:12] + ["..."])
    return core.jsonable(s)


def seed_batches(tier, base_seed, quick_runs, batch=250):
    """Batches of run seeds: fixed count for quick, endless for thorough."""
    i = 0
    while True:
        if tier == "quick" and i >= quick_runs:
            return
        n = batch if tier != "quick" else min(batch, quick_runs - i)
        yield [{"seed": core.run_seed(base_seed, i + j)} for j in range(n)]
        i += n


def draw_config_any(rng, policies=(0, 1)):
    """Every reader option varied (C07/C08/C09 style)."""
    cfg = draw_config(rng, policies=policies, protfilters=(7, 7, 7, 0, 1, 2, 3, 4, 5, 6), parsing=(True, True, False))
    return cfg


def gen_mixed_frames(rng, lnk, n, cfg, counters, style=None, variant_fault=False):
    """
    Wires for the 'every byte stream whatsoever' properties: valid frames, frames with
    unrestricted link faults (mutated / truncated / spliced), carriers with nested frames,
    unrestricted noise and garbage.  Returns scenario frame dicts.
    """
    style = style or rng.choice(("clean", "mutated", "mutated", "garbage", "mixed", "mixed", "nested"))
    frames = []
    if style == "garbage":
        for _ in range(rng.randrange(1, 4)):
            frames.append({"kind": "garbage", "hex": device.garbage(rng).hex(), "faults": [], "note": "garbage"})
        return frames
    p_fault = {"clean": 0.0, "mutated": 0.5, "mixed": 0.25, "nested": 0.15}[style]
    p_garb = {"clean": 0.0, "mutated": 0.15, "mixed": 0.3, "nested": 0.1}[style]
    modes = modes_for(cfg["msgmode"]) if rng.random() < 0.8 else None
    if rng.random() < 0.05:
        data, note = device.text_preamble(rng)
        frames.append({"kind": "garbage", "hex": data.hex(), "faults": [], "note": note})
        counters.hit("fault_text_preamble")
    for i in range(n):
        if rng.random() < 0.015:
            data, note = device.nmea_runaway(rng)
            frames.append({"kind": "garbage", "hex": data.hex(), "faults": [], "note": note})
            counters.hit("fault_runaway_line")
        if rng.random() < p_garb:
            frames.append({"kind": "garbage", "hex": device.garbage(rng, n=rng.choice((1, 2, 3, 5, 9))).hex(), "faults": [], "note": "garbage"})
            counters.hit("fault_noise")
        if style == "nested" and rng.random() < 0.5:
            data, kind, note = device.carrier(rng, serial=i + 1)
        else:
            kind, data, note = device.frame_any(rng, serial=i + 1, variant_fault=variant_fault, modes=modes)
        fr = {"kind": kind, "hex": data.hex(), "faults": [], "note": note}
        if rng.random() < p_fault:
            cur = data
            for _ in range(rng.choice((1, 1, 1, 2, 3))):
                flt = link.any_fault(lnk, cur)
                fr["faults"].append(flt)
                cur = link.apply_faults(cur, [flt])
            if kind == "ubx" and lnk.random() < 0.3:
                fr["faults"].append({"k": "reseal"})
        frames.append(fr)
    if rng.random() < p_garb:
        frames.append({"kind": "garbage", "hex": device.garbage(rng, n=rng.choice((1, 2, 3, 5))).hex(), "faults": [], "note": "garbage"})
    if rng.random() < 0.25 and frames and style != "clean":
        # the link dies inside the last frame
        last = frames[-1]
        ln = len(link.frame_bytes(last))
        if ln > 1:
            last["faults"] = list(last["faults"]) + [{"k": "trunc", "len": lnk.randrange(1, ln)}]
    return frames


def giant_run_frames(rng, counters):
    """> 65535 back-to-back tiny frames of one kind (one frame dict with `repeat`) and a tail frame of another protocol."""
    kind, data, count, style, tkind, tdata = device.giant_run(rng)
    counters.hit("giant_run_wires")
    counters.hit("giant_run:" + style)
    return [
        {"kind": "garbage", "hex": data.hex(), "faults": [], "repeat": count, "note": f"giant run: {count} x {style}"},
        {"kind": tkind, "hex": tdata.hex(), "faults": [], "note": "tail frame"},
    ], style


def long_run_frames(rng, counters):
    """>= 1100 tiny frames of one or two kinds (or noise) as scenario frame dicts, plus the style name."""
    run, style = device.long_run(rng)
    counters.hit("long_run_wires")
    counters.hit("long_run:" + style)
    return [{"kind": k if k != "garbage" else "noise", "hex": b.hex(), "faults": [], "note": note} for k, b, note in run], style
