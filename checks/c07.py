"""
C07 - the reader neither invents, duplicates, reorders nor abandons stream bytes.

Arbitrary wires (garbage over swarm-chosen alphabets, valid / mutated / truncated / spliced /
nested frames) through every transport and every non-raising reader configuration.
Oracle: ledger invariants on the transport's own records -
  (i)   the raw items embed into the wire as non-overlapping in-order slices,
  (ii)  each raw starts with a UBX, NMEA or RTCM3 preamble,
  (iii) when iteration stops, the transport has handed out every byte of the wire
        (file / socket that ends by close or timeout; not claimed across mid-stream stalls).
Quick tier additionally enumerates *every* wire of length <= 4 over the 14-symbol
frame alphabet; thorough goes to length 5.
"""

from checks import common
from sim import core, device, link, sched, wire as W
from sim.observe import embed_offsets, run_reader
from sim.runner import UnitResult

PROPERTY = "C07"
LEVEL = "exploration"
RULE = (
    "seeded wires (garbage over 4 alphabets; valid, mutated, truncated, spliced and nested frames of "
    "three protocols) x all non-raising reader configurations x transports SimFile / SimSocket "
    "(segmentation, bufsize, close|timeout) / stress (mid-stream stall with re-reading, SimSerial short "
    "reads); plus complete enumeration of wires up to length 4 (quick) or 5 (thorough) over the "
    "14-symbol frame alphabet; non-trivial = at least one item delivered or error reported; distinct = "
    "distinct SHA-256 of (config, transport ledger, delivered raws)"
)
ASSUMPTIONS = common.BASE_ASSUMPTIONS + [
    "the greedy earliest-match scan is complete for contiguous in-order embeddings, so a failed embedding means none exists",
    "runs in which a foreign exception or step-budget overrun occurs are C08's business and counted as skipped_base_failed",
]
REAL_VS_STUB = common.REAL_VS_STUB
QUICK_RUNS = 180000
ENUM_LEN = {"quick": 4, "thorough": 5, "selftest": 2}
ALPHA = device.FRAME_ALPHABET
EXPECTED_PROBES = {
    "quick": ["socket_runs", "stall_runs", "serial_runs", "short_reads", "enum_wires", "items_delivered", "rtcm_empty_delivered_or_skipped"],
    "thorough": ["socket_runs", "stall_runs", "serial_runs", "short_reads", "enum_wires", "items_delivered"],
}

LONG_RUN_EVERY = 307  # one seeded scenario in 307 starts with >= 1100 tiny frames of one or two kinds
GIANT_RUN_EVERY = 30011  # one in 30 011: > 65535 tiny frames of one kind

def generate(seed: int, tier: str = "quick") -> dict:
    r_cfg = core.stream(seed, "config")
    r_dev = core.stream(seed, "device")
    r_lnk = core.stream(seed, "link")
    r_sch = core.stream(seed, "sched")
    cfg = common.draw_config_any(r_cfg)
    pre = core.Counters()
    n = r_cfg.choice((1, 2, 3, 4, 6, 9))
    variant = r_cfg.random() < 0.3
    frames = common.gen_mixed_frames(r_dev, r_lnk, n, cfg, pre, variant_fault=variant)
    if variant:
        pre.hit("fault_firmware_variant")
    if r_cfg.random() < 0.02:
        # one large frame whose size sits on a multiple of a block size a reader might read in
        nbig = device.block_length(r_dev)
        data = W.ubx_frame(r_cfg.choice((0x02, 0x66, 0x0A)), r_cfg.choice((0x13, 0x77, 0x04)), device.payload_bytes(r_dev, nbig, "zeros"))
        frames = frames[:3]
        frames.insert(r_cfg.randrange(len(frames) + 1), {"kind": "ubx", "hex": data.hex(), "faults": [], "note": f"block-size frame payload {nbig}"})
        pre.hit("block_size_frames")
    lengthy = None
    if seed % GIANT_RUN_EVERY == GIANT_RUN_EVERY - 1:
        frames = common.giant_run_frames(r_dev, pre)[0] + frames[:2]
        lengthy = "giant"
    elif seed % LONG_RUN_EVERY == LONG_RUN_EVERY - 1:
        run, _style = common.long_run_frames(r_dev, pre)
        frames = [dict(f, kind="garbage") if f["kind"] == "noise" else f for f in run] + frames[:3]
        lengthy = "long"
    spans = sched.spans_of(frames)
    wire_len = spans[-1][1] if spans else 0
    roll = r_sch.random()
    if lengthy:
        # thousands of frames: plain transports with real-world buffer sizes (what matters here is the count)
        if roll < 0.5:
            tr = {"kind": r_sch.choice(("file", "bytesio", "pipe"))}
        else:
            sizes = sched.random_segments(r_sch, wire_len, spans, style="few")
            tr = {"kind": "socket", "segments": sched.timed_segments(r_sch, sizes, 2.0), "timeout": 2.0, "end": r_sch.choice(("close", "timeout")), "host_delay": 0.0}
            cfg["bufsize"] = r_sch.choice((64, 1024, 4096))
        if cfg["quitonerror"] == 2:
            cfg["quitonerror"] = r_sch.choice((0, 1))
    elif roll < 0.38:
        tr = {"kind": "file"}
    elif roll < 0.42:
        tr = {"kind": "capfile", "cap": r_sch.choice((1, 2, 3, 7, 16, 20, 64))}
    elif roll < 0.44:
        tr = {"kind": "pipe"}
    elif roll < 0.47:
        tr = {"kind": "bytesio"}
    elif roll < 0.50:
        # what open(path, "rb") returns: a real io.BufferedReader (peek / read1 / seek), small buffers make its edges frequent
        tr = {"kind": "buffered", "buffer_size": r_sch.choice((1, 2, 3, 8, 16, 61, 64, 512, 8192))}
    elif roll < 0.53:
        # datagram socket: one recv per datagram; the application chose bufsize >= its largest datagram
        sizes = sched.random_segments(r_sch, wire_len, spans, style=r_sch.choice(("aligned", "uniform", "few", "biased")))
        cfg["bufsize"] = max(sizes + [1]) + r_sch.choice((0, 0, 1, 7, 100))
        tr = {"kind": "dgram", "segments": sched.timed_segments(r_sch, sizes, 2.0), "timeout": 2.0, "end": r_sch.choice(("close", "timeout")), "host_delay": 0.0}
    elif roll < 0.8:
        tr = common.draw_transport(r_sch, wire_len, spans, kinds=("socket",))
        cfg["bufsize"] = r_sch.choice(sched.BUFSIZES)
    elif roll < 0.9:
        # stress: mid-stream stall longer than the socket timeout; the host keeps reading
        sizes = sched.random_segments(r_sch, wire_len, spans)
        segs = sched.timed_segments(r_sch, sizes, 1.0)
        if len(segs) > 1:
            k = r_sch.randrange(1, len(segs))
            for s in segs[k:]:
                s[0] = round(s[0] + r_sch.choice((1.5, 3.0, 10.0)), 6)
        tr = {"kind": "socket", "segments": segs, "timeout": 1.0, "end": r_sch.choice(("close", "timeout")), "host_delay": 0.0, "stress": "stall", "rereads": 14, "redrive": r_sch.choice(("read", "iter")), "nonblocking": r_sch.random() < 0.35}
        if r_sch.random() < 0.3:
            # after each end of stream the application throws its reader away and builds a new one on the SAME socket
            tr["fresh_reader_on_reentry"] = True
            tr["redrive"] = "read"
        if r_sch.random() < 0.25:
            # the application had another connection before this one: it read from it, closed it
            # locally and still holds that reader; the new socket gets the same descriptor number
            tr["previous_connection"] = device.garbage(r_sch, n=r_sch.choice((0, 5, 40))).hex() + device.ubx_common(r_sch)[0].hex() + device.nmea_any(r_sch)[0].hex()
        cfg["bufsize"] = r_sch.choice(sched.BUFSIZES)
    else:
        sizes = sched.random_segments(r_sch, wire_len, spans)
        segs = sched.timed_segments(r_sch, sizes, 1.0)
        for s in segs:
            if r_sch.random() < 0.3:
                s[0] = round(s[0] + 2.0, 6)
        segs.sort(key=lambda s: s[0])
        tr = {"kind": "serial", "segments": segs, "timeout": 1.0, "stress": "short_read", "rereads": 6}
    if tr["kind"] in ("file", "bytesio", "buffered", "pipe", "capfile") and r_sch.random() < 0.35:
        cfg["second_pass"] = True
    return {"seed": seed, "config": cfg, "frames": frames, "transport": tr, "pre_faults": dict(pre)}


def _drive(wire, cfg, tr):
    """Run the reader; under a stress transport keep calling read() after (None, None)."""
    rereads = tr.get("rereads", 0)
    if not rereads:
        return run_reader(wire, cfg, tr), None
    # stress: one reader object, repeated iteration
    from pyubx2 import UBXReader  # pylint: disable=import-outside-toplevel
    from sim.observe import Outcome, canon_exc, canon_parsed, reader_kwargs  # pylint: disable=import-outside-toplevel
    from sim.transports import SimBudgetExceeded, make_transport  # pylint: disable=import-outside-toplevel

    out = Outcome()
    old_reader = None
    if tr.get("previous_connection") is not None:
        prev = make_transport(bytes.fromhex(tr["previous_connection"]), {"kind": "socket", "end": "timeout", "timeout": 1.0, "fileno": 7})
        old_reader = UBXReader(prev, quitonerror=0, bufsize=cfg.get("bufsize", 4096))
        for _ in range(2):
            try:
                if old_reader.read() == (None, None):
                    break
            except Exception:  # pylint: disable=broad-except
                break  # what the earlier connection carried is history, not under judgement here
        prev.close()  # closed locally; the reader object stays referenced for the rest of the run
    tp = make_transport(wire, dict(tr, fileno=7))
    out.transport = tp
    kw = reader_kwargs(cfg)
    kw["errorhandler"] = lambda err: out.events.append(("E",) + canon_exc(err))
    ends = 0
    renew = False
    late = 0  # re-entries made after the peer had sent its last byte
    by_iteration = tr.get("redrive") == "iter"
    try:
        core.VirtualClock.source = tp if hasattr(tp, "now") else None
        ubr = UBXReader(tp, **kw)
        while ends <= rereads:
            if ends and hasattr(tp, "idle"):
                tp.idle(1.0)  # the application waits a little before asking again
            if ends and tr.get("fresh_reader_on_reentry") and renew:
                renew = False
                ubr = None  # drop the old reader (and its wrapper) first, as `reader = UBXReader(sock)` in a loop does
                import gc  # pylint: disable=import-outside-toplevel

                gc.collect()
                ubr = UBXReader(tp, **kw)
            if hasattr(tp, "everything_arrived") and tp.everything_arrived():
                late += 1
            if by_iteration:
                # the application iterates again after each end of iteration (e.g. `for` inside `while True`)
                try:
                    raw, parsed = next(ubr)
                except StopIteration:
                    ends += 1
                    continue
            else:
                raw, parsed = ubr.read()
            if raw is None and parsed is None:
                ends += 1
                renew = True
                continue
            out.items.append((raw, canon_parsed(parsed)))
            if len(out.items) > len(wire) + 16:
                raise SimBudgetExceeded("too many items")
    except SimBudgetExceeded as err:
        out.hang = str(err)
    except Exception as err:  # pylint: disable=broad-except
        out.exc = canon_exc(err)
    finally:
        core.VirtualClock.source = None
    del old_reader
    return out, late


def _judge(wire, out, full_consumption: bool):
    for i, (raw, _) in enumerate(out.items):
        if not isinstance(raw, (bytes, bytearray)):
            return ("raw_not_bytes", f"item {i}: raw is {type(raw).__name__}")
        if not (raw[0:2] == b"\xb5\x62" or raw[0:1] in (b"\x24", b"\xd3")):
            return ("raw_without_preamble", f"item {i}: raw {bytes(raw[:8]).hex()} does not begin with a UBX, NMEA or RTCM3 preamble")
    offs = embed_offsets(wire, out.raws())
    if offs is None:
        return ("raws_not_inorder_slices", f"raws {[r.hex() for r in out.raws()][:8]} are not non-overlapping in-order slices of the wire {wire.hex()[:200]}")
    if full_consumption and out.transport.handed_out != len(wire):
        return (
            "bytes_left_unread",
            f"end-of-stream reported after {out.transport.handed_out} of {len(wire)} bytes",
        )
    return None


def _run(scn, res=None):
    cfg = scn["config"]
    tr = scn["transport"]
    wire = link.wire_of(scn["frames"]) if "frames" in scn else bytes.fromhex(scn["wire"])
    out, late_entries = _drive(wire, cfg, tr)
    if res is not None:
        res.evaluations += 1
        res.sim_seconds += out.transport.sim_seconds
        c = res.counters
        for k, v in (scn.get("pre_faults") or {}).items():
            c.hit(k, v)
        if "frames" in scn:
            link.count_fired(scn["frames"], c)
        c.hit(tr["kind"] + "_runs")
        if tr["kind"] == "dgram":
            c.hit("fault_datagram_boundaries", max(len(tr.get("segments") or ()) - 1, 0))
        if tr.get("fresh_reader_on_reentry"):
            c.hit("fresh_reader_on_reentry_runs")
        if tr.get("stress") == "stall":
            c.hit("stall_runs")
            c.hit("stall_redrive_" + str(tr.get("redrive")))
            c.hit("fault_stall", getattr(out.transport, "midstream_timeouts", 0))
        if tr["kind"] == "capfile":
            c.hit("fault_capped_read", out.transport.capped_reads)
        if tr["kind"] == "serial":
            c.hit("short_reads", out.transport.short_reads)
            c.hit("fault_short_read", out.transport.short_reads)
        c.hit("items_delivered", len(out.items))
        c.hit("errors_reported", len(out.events))
        c.hit(f"protfilter_{cfg['protfilter']}")
        if b"\xd3\x00\x00" in wire:
            c.hit("rtcm_empty_delivered_or_skipped")
        if tr["kind"] == "socket":
            c.hit("socket_end_" + str(tr.get("end")))
        res.log((sorted(cfg.items()), out.transport.ledger, out.raws(), out.exc), bool(out.items or out.events))
    if out.hang or out.exc:
        if res is not None:
            res.skipped_base_failed += 1
        return None
    v = _judge(wire, out, full_consumption=not tr.get("stress"))
    if v is None and tr.get("stress") == "stall":
        # the pause is over (every byte has arrived, the reader kept asking well past the end): what
        # remains unread now was abandoned, not merely late
        tp = out.transport
        if late_entries is not None and late_entries >= 3 and tp.handed_out != len(wire):
            return ("bytes_left_unread_after_stream_resumed", f"the reader reported end of stream during a pause; after the stream resumed and ended, {len(wire) - tp.handed_out} of {len(wire)} bytes were never read ({'iteration' if tr.get('redrive') == 'iter' else 'read()'} re-entered {tr.get('rereads')} times)")
    return v


def execute(scn):
    return _run(scn)


def _enum_unit(unit, res):
    """Every wire of a given length whose first symbol is fixed."""
    length, first = unit["enum"], unit["first"]
    cfgs = [
        {"msgmode": 0, "validate": 1, "protfilter": 7, "quitonerror": 1, "parsebitfield": 1, "parsing": True, "handler": True},
        {"msgmode": 3, "validate": 0, "protfilter": 5, "quitonerror": 0, "parsebitfield": 0, "parsing": False, "handler": True},
    ]
    idx = [0] * (length - 1)
    tr = {"kind": "file"}
    while True:
        wire = bytes([ALPHA[first]] + [ALPHA[i] for i in idx])
        for cfg in cfgs:
            scn = {"seed": 0, "config": cfg, "wire": wire.hex(), "transport": tr}
            v = _run(scn, res)
            res.runs += 1
            res.counters.hit("enum_wires")
            if v is not None:
                bad = {"seed": 0, "config": cfg, "frames": [{"kind": "garbage", "hex": wire.hex(), "faults": [], "note": "enumerated"}], "transport": tr}
                bad["clause"], bad["detail"] = v
                res.violations.append(bad)
        # next
        j = len(idx) - 1
        while j >= 0:
            idx[j] += 1
            if idx[j] < len(ALPHA):
                break
            idx[j] = 0
            j -= 1
        if j < 0:
            break


def run_unit(unit) -> UnitResult:
    res = UnitResult()
    if "enum" in unit:
        _enum_unit(unit, res)
        return res
    scn = generate(unit["seed"])
    res.runs = 1
    v = _run(scn, res)
    if unit["seed"] % 4001 == 0:
        res.samples.append(common.sample_of(scn))
    if v is not None:
        bad = dict(scn)
        bad["clause"], bad["detail"] = v
        res.violations.append(bad)
    return res


def batches(tier, base_seed):
    maxlen = ENUM_LEN.get(tier, 2)
    for length in range(1, maxlen + 1):
        for first in range(len(ALPHA)):
            yield [{"enum": length, "first": first}]
    yield from common.seed_batches(tier, base_seed, QUICK_RUNS)


EXHAUSTIVE = {"quick": False, "thorough": False}


def finish_evidence(ev, total, tier):
    n = ENUM_LEN.get(tier, 2)
    ev["coverage"]["enumerated_exhaustively"] = (
        f"all {sum(len(ALPHA) ** k for k in range(1, n + 1))} wires of length 1..{n} over the alphabet "
        f"{ALPHA.hex()} under 2 configurations (file transport); the property as a whole is sampled, not enumerated"
    )
