"""
C12 - quitonerror decides how a rejected frame is reported, not which frames arrive.

One wire, executions under ERR_IGNORE, ERR_LOG + handler, ERR_LOG without handler (records
captured from the logger) and ERR_RAISE; a unified event log records DELIVER / ERROR in order.
Constructive mode (good frames + boundary-preserving corrupted frames): under ERR_LOG the log
equals, frame by frame, DELIVER for frames the protocol parser accepts and exactly one
ERROR(type, message) - what that parser raises for those bytes - for each it rejects.
Relational mode (arbitrary wires): items(IGNORE) = items(LOG) = items(LOG, no handler); under
ERR_RAISE the items are exactly those LOG delivered before its first ERROR and the exception
raised has that ERROR's type and message.
"""

import logging

from checks import common
from sim import core, link, sched
from sim.observe import run_reader
from sim.runner import UnitResult

PROPERTY = "C12"
LEVEL = "exploration"
RULE = (
    "seeded wires in two modes - constructive (frames of three protocols, a seeded subset corrupted by "
    "boundary-preserving substitutions, safe noise) and relational (garbage / mutated / truncated / nested "
    "mixtures) - each executed under ERR_IGNORE, ERR_LOG+handler, ERR_LOG without handler and ERR_RAISE on "
    "a seeded transport; non-trivial = wire with >= 1 rejected frame and >= 1 delivered item; distinct = "
    "distinct SHA-256 of (wire, config, unified event log)"
)
ASSUMPTIONS = common.BASE_ASSUMPTIONS + [
    "what is written to the logger when no handler is supplied is not specified by the property and not judged (only that delivery is unchanged)",
    "if the ERR_LOG reference run meets a foreign exception or overruns its budget the wire is skipped (C08's business)",
]
REAL_VS_STUB = common.REAL_VS_STUB
QUICK_RUNS = 36000
LONG_RUN_EVERY = 173  # one constructive wire in 173 starts with >= 1100 tiny frames (accepted or rejected)
EXPECTED_PROBES = {
    t: ["constructive_wires", "relational_wires", "handler_calls>=2", "raise_after_>=1_item", "raise_completes_clean", "rejected_ubx", "rejected_nmea", "rejected_rtcm", "logger_records"]
    for t in ("quick", "thorough")
}


class _Capture(logging.Handler):
    def __init__(self):
        super().__init__()
        self.records = []

    def emit(self, record):
        self.records.append(record.getMessage())


def generate(seed: int, tier: str = "quick") -> dict:
    r_cfg = core.stream(seed, "config")
    r_dev = core.stream(seed, "device")
    r_lnk = core.stream(seed, "link")
    r_sch = core.stream(seed, "sched")
    cfg = common.draw_config(r_cfg, policies=(1,), protfilters=(7, 7, 7, 3, 5, 6), parsing=(True,))
    pre = core.Counters()
    n = r_cfg.choice((1, 2, 3, 4, 6, 9, 12))
    constructive = r_cfg.random() < 0.55
    if constructive:
        cfg["protfilter"] = 7
        frames = common.gen_frames(r_dev, n, cfg, mix=r_cfg.choice((None, {"ubx": 1, "ubxc": 5, "nmea": 4, "rtcm": 3})))
        if seed % LONG_RUN_EVERY == LONG_RUN_EVERY - 1:
            run, style = common.long_run_frames(r_dev, pre)
            if style not in ("unknown_hdr", "noise"):
                frames = run + frames[:3]
        frames = common.frame_level_faults(r_lnk, frames, pre)
        common.corrupt_preserving(r_lnk, frames, pre, p=r_cfg.choice((0.1, 0.3, 0.6)))
        frames = common.add_noise(r_lnk, frames, pre, p=r_cfg.choice((0.0, 0.2)))
    else:
        frames = common.gen_mixed_frames(r_dev, r_lnk, n, cfg, pre)
    spans = sched.spans_of(frames)
    wire_len = spans[-1][1] if spans else 0
    tr = common.draw_transport(r_sch, wire_len, spans, kinds=("file", "file", "socket"))
    if tr["kind"] == "socket":
        cfg["bufsize"] = r_sch.choice(sched.BUFSIZES)
    elif not constructive and r_sch.random() < 0.3:
        # streams that hand out short reads in the MIDDLE of the data (slow device drivers, serial
        # ports with a timeout): frames are lost to "terminated unexpectedly" errors - alike under every policy
        if r_sch.random() < 0.5:
            tr = {"kind": "capfile", "cap": r_sch.choice((3, 7, 16, 20, 40, 64))}
        else:
            sizes = sched.random_segments(r_sch, wire_len, spans)
            segs = sched.timed_segments(r_sch, sizes, 1.0)
            for s in segs:
                if r_sch.random() < 0.3:
                    s[0] = round(s[0] + 2.0, 6)
            tr = {"kind": "serial", "segments": segs, "timeout": 1.0}
    cfg["handler_kind"] = r_cfg.choice(("function", "function", "method", "method", "falsy_callable", "raise_once", "returns_value", "returns_false", "error_attr_data", "error_attr_method"))
    if tr["kind"] == "file" and r_sch.random() < 0.15:
        tr = {"kind": "pipe"}
    if constructive and r_cfg.random() < 0.2 and frames and len(frames) < 40:
        # pauses longer than the socket timeout, placed exactly BETWEEN frames; the application asks
        # again after each end of stream.  Frame boundaries - and therefore the per-frame verdicts -
        # are untouched, so the constructive oracle still applies.
        # the pause before each frame is stored WITH the frame, and the arrival schedule is derived
        # from the frames at execution time: whatever the minimiser removes, pauses stay on boundaries
        for f in frames:
            roll = r_sch.random()
            f["gap"] = r_sch.choice((1.5, 3.0, 4.5)) if roll < 0.4 else 0.01 if roll < 0.7 else 0.0
        tr = {"kind": "socket", "timeout": 1.0, "end": r_sch.choice(("close", "timeout")), "host_delay": 0.0, "rereads": 16, "redrive_all": True, "stress": "boundary_stall", "nonblocking": r_sch.random() < 0.4}
        cfg["bufsize"] = r_sch.choice((64, 1024, 4096))
    if r_cfg.random() < 0.5:
        # another reader with another policy / handler is alive while this one is read
        cfg["decoy"] = True
        cfg["decoy_policy"] = r_cfg.choice((0, 1, 1, 2))
        cfg["decoy_protfilter"] = r_cfg.choice((7, 1, 2, 4))
        cfg["decoy_msgmode"] = r_cfg.choice((0, 1, 2, 3))
    return {"seed": seed, "config": cfg, "frames": frames, "transport": tr, "constructive": constructive, "pre_faults": dict(pre)}


def _expected_events(frames, cfg):
    """Constructive event log: D(raw) / E(type, msg) per frame, or None if a parser misbehaves."""
    ev = []
    for f in frames:
        if f["kind"] == "noise":
            continue
        data = link.frame_bytes(f)
        r = common.static_parse(f["kind"], data, cfg)
        if r[0] == "foreign":
            return None
        if r[0] == "ok":
            ev.append(("D", data))
        else:
            ev.append(("E",) + tuple(r[1]))
    return ev


def _run(scn, res=None):
    cfg0 = scn["config"]
    wire = link.wire_of(scn["frames"])
    tr = scn["transport"]
    if tr.get("stress") == "boundary_stall":
        segs, t = [], 0.0
        for f in scn["frames"]:
            n_bytes = len(link.frame_bytes(f))
            if n_bytes:
                t = round(t + (f.get("gap", 0.0) if segs else 0.0), 6)
                segs.append([t, n_bytes])
        tr = dict(tr, segments=segs, timeout=0.0 if tr.get("nonblocking") else 1.0)
    log = run_reader(wire, dict(cfg0, quitonerror=1, handler=True), tr)
    if log.exc and log.exc[0] in common.proto_error_names():
        # a *protocol* rejection must be reported through the policy, never raised under ERR_LOG
        if res is not None:
            res.evaluations += 1
        return ("rejection_raised_under_ERR_LOG", f"ERR_LOG + handler raised {log.exc} after {len(log.items)} items instead of reporting it to the handler")
    if log.exc and not log.hang:
        # a foreign exception under ERR_LOG: C08's business if the stream kills the reader under
        # every policy - but if ERR_IGNORE reads the very same wire to its end, it is the policy
        # that changed the outcome, and that is this property
        probe = run_reader(wire, dict(cfg0, quitonerror=0, handler=True), tr)
        if res is not None:
            res.evaluations += 1
        if probe.exc is None and probe.hang is None:
            return ("err_log_raises_where_err_ignore_completes", f"ERR_LOG + handler raised {log.exc} after {len(log.items)} items (from {log.exc_where}); ERR_IGNORE read the same stream to its end and delivered {len(probe.items)} items")
    if log.hang or log.exc:
        if res is not None:
            res.skipped_base_failed += 1
            res.evaluations += 1
        return None
    ign = run_reader(wire, dict(cfg0, quitonerror=0, handler=True), tr)
    cap = _Capture()
    lg = logging.getLogger("pyubx2")
    lg.addHandler(cap)
    try:
        nohand = run_reader(wire, dict(cfg0, quitonerror=1, handler=False), tr)
    finally:
        lg.removeHandler(cap)
    rai = run_reader(wire, dict(cfg0, quitonerror=2, handler=True), tr)
    errors = [e for e in log.events if e[0] == "E"]
    if res is not None:
        res.evaluations += 4
        res.sim_seconds += log.transport.sim_seconds
        c = res.counters
        for k, v in (scn.get("pre_faults") or {}).items():
            c.hit(k, v)
        link.count_fired(scn["frames"], c)
        c.hit("constructive_wires" if scn.get("constructive") else "relational_wires")
        if len(errors) >= 2:
            c.hit("handler_calls>=2")
        if rai.exc and rai.items:
            c.hit("raise_after_>=1_item")
        if not rai.exc:
            c.hit("raise_completes_clean")
        for e in errors:
            mod = e[1].split(".")[0]
            c.hit({"pyubx2": "rejected_ubx", "pynmeagps": "rejected_nmea", "pyrtcm": "rejected_rtcm"}.get(mod, "rejected_other"))
            c.hit("errtype:" + e[1].split(".")[-1])
        c.hit("logger_records", len(cap.records))
        c.hit(tr["kind"] + "_runs")
        c.hit("handler_kind_" + str(cfg0.get("handler_kind")))
        if tr.get("stress") == "boundary_stall":
            c.hit("boundary_stall_runs")
            c.hit("fault_stall", getattr(log.transport, "midstream_timeouts", 0))
        if cfg0.get("decoy"):
            c.hit("decoy_reader_alive")
        res.log((wire, sorted(cfg0.items()), log.events), bool(errors) and bool(log.items))
    # ---- relational clauses
    for name, out in (("ERR_IGNORE", ign), ("ERR_LOG without handler", nohand)):
        if out.hang:
            return ("policy_run_hangs", f"{name}: {out.hang}")
        if out.exc and out.exc[0] in common.proto_error_names():
            return ("non_raising_policy_raises", f"{name}: {out.exc}")
        if out.exc:  # foreign exception: C08's business
            if res is not None:
                res.skipped_base_failed += 1
            return None
        if out.items != log.items:
            return ("policy_changes_delivered_items", f"{name} delivered {len(out.items)} items, ERR_LOG+handler {len(log.items)}: {[r.hex()[:40] for r, _ in out.items][:5]} vs {[r.hex()[:40] for r, _ in log.items][:5]}")
    if log.handler_bad:
        return ("handler_called_with_non_exception", log.handler_bad[0])
    for name, out in (("ERR_LOG", log), ("ERR_IGNORE", ign), ("ERR_LOG without handler", nohand), ("ERR_RAISE", rai)):
        if out.decoy_calls:
            return ("error_reported_to_another_readers_handler", f"{name}: {out.decoy_calls} call(s) reached the handler of a different live reader")
    if any(e[0] == "E" for e in ign.events):
        return ("handler_called_under_err_ignore", str(ign.events[:4]))
    if rai.hang:
        return ("policy_run_hangs", f"ERR_RAISE: {rai.hang}")
    first_err = next((i for i, e in enumerate(log.events) if e[0] == "E"), None)
    if first_err is None:
        if rai.exc:
            return ("raise_without_rejection", f"ERR_LOG saw no error, ERR_RAISE raised {rai.exc}")
        if rai.items != log.items:
            return ("raise_changes_items", f"no frame rejected, yet ERR_RAISE delivered {len(rai.items)} items vs {len(log.items)}")
    else:
        n_before = sum(1 for e in log.events[:first_err] if e[0] == "D")
        want_exc = tuple(log.events[first_err][1:])
        if rai.items != log.items[:n_before]:
            return ("raise_delivers_wrong_prefix", f"ERR_RAISE delivered {len(rai.items)} items, ERR_LOG delivered {n_before} before its first error")
        if rai.exc is None:
            return ("raise_swallows_rejection", f"ERR_LOG reported {want_exc}, ERR_RAISE completed without raising")
        if tuple(rai.exc) != want_exc:
            return ("raise_raises_different_exception", f"ERR_LOG's first error {want_exc}, ERR_RAISE raised {tuple(rai.exc)}")
    # ---- constructive clause
    if scn.get("constructive"):
        exp = _expected_events(scn["frames"], cfg0)
        if exp is None:
            if res is not None:
                res.skipped_base_failed += 1
            return None
        got = [tuple(e) for e in log.events]
        if got != [tuple(e) for e in exp]:
            i = 0
            while i < min(len(exp), len(got)) and tuple(exp[i]) == got[i]:
                i += 1

            def show(e):
                return None if e is None else (e[0], e[1].hex()[:40]) if e[0] == "D" else e

            return (
                "error_log_differs_from_per_frame_verdicts",
                f"event {i}: expected {show(exp[i] if i < len(exp) else None)} got {show(got[i] if i < len(got) else None)} (expected n={len(exp)}, got n={len(got)})",
            )
    return None


def execute(scn):
    return _run(scn)


def run_unit(unit) -> UnitResult:
    res = UnitResult()
    scn = generate(unit["seed"])
    res.runs = 1
    v = _run(scn, res)
    if unit["seed"] % 2003 == 0:
        res.samples.append(common.sample_of(scn))
    if v is not None:
        bad = dict(scn)
        bad["clause"], bad["detail"] = v
        res.violations.append(bad)
    return res


def batches(tier, base_seed):
    return common.seed_batches(tier, base_seed, QUICK_RUNS)
