"""
C08 - no input makes parsing or reading fail with a foreign exception or hang.

Firmware-variant device: walks the WHOLE message catalogue (every UBX_MSGIDS key incl. the
3-byte MGA keys, plus undocumented ids) round-robin by seed, with checksum-valid payloads of
lengths 0, 1, 2 ... through and beyond the defined size (and cut inside long arrays); NMEA and
RTCM3 sources; link corruption of every kind; transports SimFile, SimSocket (segmentation,
both end conditions, mid-stream stall) and SimSerial (short reads); every reader configuration
(msgmode x validate x parsebitfield x protfilter x quitonerror x parsing).
Oracles: exception-class (nothing escapes under IGNORE/LOG; only UBX*/NMEA*/RTCM* protocol
errors under RAISE; parse() returns or raises UBX*), inspection (str, repr, identity, length,
payload, msgmode, msg_cls, msg_id, serialize never raise), and bounded liveness (transport
step budget + loop-iteration meter; both deterministic).
"""

from checks import common
from sim import core, device, link, sched
from sim import wire as W
from sim.meter import StepMeter
from sim.observe import exc_origin, run_reader
from sim.runner import UnitResult
from sim.transports import SimBudgetExceeded

PROPERTY = "C08"
LEVEL = "exploration"
RULE = (
    "seed i sends catalogue entry i mod N (every UBX_MSGIDS key) as a checksum-valid frame whose payload "
    "length is drawn around the defined sizes (0,1,2, defined-k, defined, defined+k, inside A-arrays, "
    "random) with content zeros/ff/counter/small/random, surrounded by further UBX/NMEA/RTCM3 frames, "
    "link faults (sub/ins/del/trunc/burst/flip/reseal), garbage; delivered through SimFile / SimSocket "
    "(segments, close|timeout|reset, stall) / SimSerial (short reads) to a reader with every option "
    "varied; each UBX frame is also handed to parse() under 4 msgmodes x 2 validate x 2 parsebitfield; "
    "non-trivial = run in which a fault fired or a variant-length payload was sent and at least one item "
    "was delivered or rejected; distinct = distinct SHA-256 of (config, transport ledger, items, errors)"
)
ASSUMPTIONS = common.BASE_ASSUMPTIONS + [
    "liveness is judged in steps: <= 4*len+64 transport calls, <= 64 calls after end-of-data, <= 50e6 loop iterations per run",
    "the parse() half is exercised with the frames the simulated device and link produce (plus their corruptions), not with an independent byte-string enumerator",
]
REAL_VS_STUB = common.REAL_VS_STUB
QUICK_RUNS = 14000
O_SLICE_UNITS = 120
LOOP_BUDGET = 50_000_000
GIANT_RUN_EVERY = 2003  # one seed in 2003: > 65535 tiny frames of one kind in a row
GIANT_FRAME_EVERY = 331  # one seed in 331: frames with a length field of 0x8000 ... 0xFFFF
LONG_RUN_EVERY = 61  # one seed in 61 sends a long homogeneous stretch of stream
OVERSIZE_EVERY = 47  # one seed in 47 hands parse() an input longer than a U2 length can describe
EXPECTED_PROBES = {
    t: [
        "len_class:zero", "len_class:short", "len_class:defined", "len_class:longer", "A-array_truncated", "mga_empty_payload",
        "policy_0", "policy_1", "policy_2", "serial_runs", "stall_runs", "raised:UBXMessageError", "raised:UBXTypeError",
        "raised:UBXParseError", "raised:UBXStreamError", "raised:NMEAParseError", "raised:RTCMParseError",
        "long_run_wires", "oversize_inputs_parsed",
    ]
    for t in ("quick", "thorough")
}
INSPECT = ("identity", "length", "payload", "msgmode", "msg_cls", "msg_id")
_LAST_COST = [0]  # loop iterations of the last parse() (deterministic cost measure)
HEAVY = 120_000  # a parse costing more than this many loop iterations is not repeated under all 16 option sets


def generate(seed: int, tier: str = "quick", index=None) -> dict:
    r_cfg = core.stream(seed, "config")
    r_dev = core.stream(seed, "device")
    r_lnk = core.stream(seed, "link")
    r_sch = core.stream(seed, "sched")
    cfg = common.draw_config_any(r_cfg, policies=(0, 1, 1, 2))
    pre = core.Counters()
    cat = device.catalogue()
    idx = (seed if index is None else index) % (len(cat) + 8)
    if idx < len(cat):
        entry = cat[idx]
        if r_cfg.random() < 0.7 and entry["modes"]:
            want = r_cfg.choice(entry["modes"])
            cfg["msgmode"] = want if r_cfg.random() < 0.7 else 3 if want in (1, 2) else want
        data, note = device.ubx_from_entry(r_dev, entry, variant_fault=True)
    else:
        data, note = device.ubx_unknown(r_dev)
    head = {"kind": "ubx", "hex": data.hex(), "faults": [], "note": "variant " + note}
    n = r_cfg.choice((0, 0, 1, 2, 4))
    rest = common.gen_mixed_frames(r_dev, r_lnk, n, cfg, pre, variant_fault=True) if n else []
    frames = rest[: len(rest) // 2] + [head] + rest[len(rest) // 2 :]
    long_style = None
    if (seed if index is None else index) % LONG_RUN_EVERY == LONG_RUN_EVERY - 1:
        # a long homogeneous stretch (>= 1000 tiny frames / thousands of noise bytes) before the head frame
        run, long_style = device.long_run(r_dev)
        frames = [{"kind": k, "hex": b.hex(), "faults": [], "note": note2} for k, b, note2 in run] + [head]
        cfg["protfilter"] = r_cfg.choice((1, 2, 3, 4, 5, 6, 7))
        if cfg["quitonerror"] == 2:
            cfg["quitonerror"] = r_cfg.choice((0, 1))
    sel = seed if index is None else index
    if sel % GIANT_RUN_EVERY == GIANT_RUN_EVERY - 1:
        # more tiny frames of one kind than a 16-bit counter holds, then the head frame
        frames = common.giant_run_frames(r_dev, pre)[0] + [head]
        long_style = "giant"
        cfg["protfilter"] = r_cfg.choice((1, 2, 3, 4, 5, 6, 7))
        if cfg["quitonerror"] == 2:
            cfg["quitonerror"] = r_cfg.choice((0, 1))
    elif sel % GIANT_FRAME_EVERY == GIANT_FRAME_EVERY - 1:
        # a frame whose length field is at the top of the 16-bit range (the reader asks the stream for 65 537 bytes)
        nbig = r_cfg.choice((0xFFFF, 0xFFFF, 0xFFFE, 0x8000, 0xFFFD))
        big = W.ubx_frame(r_cfg.choice((0x02, 0x66)), r_cfg.choice((0x13, 0x77)), device.payload_bytes(r_dev, nbig, "zeros"))
        head = {"kind": "ubx", "hex": big.hex(), "faults": [], "note": f"variant giant ubx frame payload {nbig}"}
        frames = rest[:1] + [head] + rest[1:2] + [{"kind": "ubx", "hex": big.hex(), "faults": [], "note": "again"}]
        long_style = "giant_frame"
        idx = len(cat)  # not an entry of the catalogue
        pre.hit("giant_frame_wires")
    spans = sched.spans_of(frames)
    wire_len = spans[-1][1] if spans else 0
    roll = r_sch.random()
    cfg["drive"] = r_sch.choice(("iter", "read"))
    if r_sch.random() < 0.2:
        cfg["handler"] = False  # ERR_LOG reports go to the logger
    if r_sch.random() < 0.08 and not long_style:
        qd, qnote = device.nmea_quoted_in_rejection(r_dev)
        frames.insert(r_sch.randrange(len(frames) + 1), {"kind": "nmea", "hex": qd.hex(), "faults": [], "note": qnote})
        spans = sched.spans_of(frames)
        wire_len = spans[-1][1]
        pre.hit("rejection_text_quotes_utf8")
    if roll < 0.38:
        tr = {"kind": "file"}
    elif roll < 0.42:
        tr = {"kind": "capfile", "cap": r_sch.choice((1, 2, 3, 7, 16, 20, 64))}
    elif roll < 0.45:
        tr = {"kind": "pipe"}
    elif roll < 0.75:
        tr = common.draw_transport(r_sch, wire_len, spans, kinds=("socket", "socket", "socket", "tlssocket"), ends=("close", "timeout", "reset", "ehostunreach", "ebadf", "enotconn"))
        cfg["bufsize"] = r_sch.choice(sched.BUFSIZES)
    elif roll < 0.87:
        sizes = sched.random_segments(r_sch, wire_len, spans)
        segs = sched.timed_segments(r_sch, sizes, 1.0)
        if len(segs) > 1:
            k = r_sch.randrange(1, len(segs))
            for s in segs[k:]:
                s[0] = round(s[0] + 5.0, 6)
        tr = {"kind": "socket", "segments": segs, "timeout": 1.0, "end": r_sch.choice(("close", "timeout")), "stress": "stall"}
        cfg["bufsize"] = r_sch.choice(sched.BUFSIZES)
    else:
        sizes = sched.random_segments(r_sch, wire_len, spans)
        segs = sched.timed_segments(r_sch, sizes, 1.0)
        for s in segs:
            if r_sch.random() < 0.3:
                s[0] = round(s[0] + 2.0, 6)
        segs.sort(key=lambda s: s[0])
        tr = {"kind": "serial", "segments": segs, "timeout": 1.0, "stress": "short_read"}
    if long_style in ("giant", "giant_frame"):
        # half a megabyte through a 1-byte receive buffer shows nothing new: few segments, real-world buffer sizes
        if r_sch.random() < 0.6:
            sizes = sched.random_segments(r_sch, wire_len, spans, style="few")
            tr = {"kind": "socket", "segments": sched.timed_segments(r_sch, sizes, 2.0), "timeout": 2.0, "end": r_sch.choice(("close", "timeout"))}
            cfg["bufsize"] = r_sch.choice((1024, 4096, 65536))
        else:
            tr = {"kind": r_sch.choice(("file", "pipe"))}
    return {"seed": seed, "mode": "reader", "config": cfg, "frames": frames, "transport": tr, "pre_faults": dict(pre), "entry": idx, "long_run": long_style}


def _inspect(obj):
    """Touch everything the property lists; return None or (what, exc type, origin, message)."""
    for what, fn in (("str", str), ("repr", repr)):
        try:
            fn(obj)
        except Exception as err:  # pylint: disable=broad-except
            return (what, type(err).__name__, exc_origin(err), str(err))
    if type(obj).__name__ == "UBXMessage":
        for name in INSPECT:
            try:
                getattr(obj, name)
            except Exception as err:  # pylint: disable=broad-except
                return (name, type(err).__name__, exc_origin(err), str(err))
        try:
            obj.serialize()
        except Exception as err:  # pylint: disable=broad-except
            return ("serialize", type(err).__name__, exc_origin(err), str(err))
    return None


def _judge_reader(scn, res=None):
    from pyubx2 import UBXReader  # pylint: disable=import-outside-toplevel

    cfg = scn["config"]
    wire = link.wire_of(scn["frames"])
    proto = common.proto_errors()
    from sim.observe import reader_kwargs  # pylint: disable=import-outside-toplevel
    from sim.transports import make_transport  # pylint: disable=import-outside-toplevel

    tp = make_transport(wire, scn["transport"])
    kw = reader_kwargs(cfg)
    errors = []
    if cfg.get("handler", True):
        kw["errorhandler"] = errors.append
    items = []
    verdict = None
    try:
        with core.clock(tp), StepMeter(LOOP_BUDGET):
            ubr = UBXReader(tp, **kw)
            if cfg.get("drive") == "read":
                # call read() directly: nothing but a protocol error may come out of it, and a
                # StopIteration leaking from below is an exception like any other here
                while True:
                    raw, parsed = ubr.read()
                    if raw is None and parsed is None:
                        break
                    items.append((raw, parsed))
                    if len(items) > len(wire) + 16:
                        raise SimBudgetExceeded("more items than bytes")
            else:
                for raw, parsed in ubr:
                    items.append((raw, parsed))
                    if len(items) > len(wire) + 16:
                        raise SimBudgetExceeded("more items than bytes")
    except SimBudgetExceeded as err:
        verdict = ("hang", f"{err}", "hang")
    except Exception as err:  # pylint: disable=broad-except
        name = type(err).__name__
        if cfg.get("quitonerror") != 2:
            verdict = ("exception_escapes_reader_with_errors_not_raised", f"quitonerror={cfg.get('quitonerror')}: {name}: {err} (from {exc_origin(err)})", f"{name}@{exc_origin(err)}")
        elif not isinstance(err, proto):
            verdict = ("foreign_exception_escapes_reader_under_ERR_RAISE", f"{name}: {err} (from {exc_origin(err)})", f"{name}@{exc_origin(err)}")
        elif res is not None:
            res.counters.hit("raise_policy_raised")
    if verdict is None:
        for raw, parsed in items:
            if parsed is not None:
                bad = _inspect(parsed)
                if bad:
                    verdict = ("inspecting_delivered_message_raises", f"{bad[0]} of item {raw.hex()[:60]} raised {bad[1]}: {bad[3]} (from {bad[2]})", f"{bad[0]}:{bad[1]}@{bad[2]}")
                    break
    if res is not None:
        res.evaluations += 1
        res.sim_seconds += tp.sim_seconds
        c = res.counters
        c.hit(f"policy_{cfg.get('quitonerror')}")
        c.hit(scn["transport"]["kind"] + "_runs")
        c.hit("drive_" + str(cfg.get("drive")))
        if scn["transport"]["kind"] == "socket":
            c.hit("socket_end_" + str(scn["transport"].get("end")))
        if scn["transport"]["kind"] == "capfile":
            c.hit("fault_capped_read", tp.capped_reads)
        if scn["transport"].get("stress") == "stall":
            c.hit("stall_runs")
            c.hit("fault_stall", getattr(tp, "midstream_timeouts", 0))
        if scn["transport"]["kind"] == "serial":
            c.hit("fault_short_read", tp.short_reads)
        if scn.get("long_run"):
            c.hit("long_run_wires")
            c.hit("long_run:" + scn["long_run"])
        for e in errors:
            c.hit("raised:" + type(e).__name__)
        for k, v in (scn.get("pre_faults") or {}).items():
            c.hit(k, v)
        link.count_fired(scn["frames"], c)
        fired = any(f.get("faults") for f in scn["frames"]) or bool(scn.get("pre_faults")) or scn.get("variant_len", True)
        res.log((sorted(cfg.items()), tp.ledger, [(r, type(p).__name__) for r, p in items], [str(e) for e in errors], verdict and verdict[0]), fired and bool(items or errors))
    return verdict


def _judge_parse(data: bytes, msgmode, validate, parsebitfield):
    from pyubx2 import UBXReader  # pylint: disable=import-outside-toplevel
    import pyubx2.exceptions as ube  # pylint: disable=import-outside-toplevel

    meter = StepMeter(LOOP_BUDGET)
    _LAST_COST[0] = 0
    try:
        try:
            with meter:
                msg = UBXReader.parse(data, msgmode=msgmode, validate=validate, parsebitfield=parsebitfield)
        finally:
            _LAST_COST[0] = meter.used
    except (ube.UBXParseError, ube.UBXMessageError, ube.UBXTypeError, ube.UBXStreamError) as err:
        return None, type(err).__name__
    except SimBudgetExceeded as err:
        return ("parse_hangs", str(err), "hang"), None
    except Exception as err:  # pylint: disable=broad-except
        name = type(err).__name__
        return ("parse_raises_foreign_exception", f"parse({data.hex()[:80]}.., msgmode={msgmode}, validate={validate}, parsebitfield={parsebitfield}) raised {name}: {err} (from {exc_origin(err)})", f"{name}@{exc_origin(err)}"), None
    bad = _inspect(msg)
    if bad:
        return ("inspecting_parsed_message_raises", f"{bad[0]} of parse({data.hex()[:80]}.., msgmode={msgmode}) raised {bad[1]}: {bad[3]} (from {bad[2]})", f"{bad[0]}:{bad[1]}@{bad[2]}"), None
    return None, "ok"


def execute(scn):
    if scn.get("mode") == "parse":
        v, _ = _judge_parse(link.frame_bytes(scn["frames"][0]), scn["msgmode"], scn["validate"], scn["parsebitfield"])
    else:
        v = _judge_reader(scn)
    if v is None:
        return None
    return (v[0] + "|" + v[2], v[1])


def signature(scn):
    return scn["clause"]


def _len_class(entry, n):
    lens = entry["lens"]
    if n == 0:
        return "zero"
    if n in lens:
        return "defined"
    if n < min(x for x in lens if x > 0) if any(x > 0 for x in lens) else False:
        return "short"
    if n > max(lens):
        return "longer"
    return "between"


def run_unit(unit) -> UnitResult:
    res = UnitResult()
    seed = unit["seed"]
    scn = generate(seed, index=unit.get("index"))
    res.runs = 1
    c = res.counters
    cat = device.catalogue()
    idx = scn["entry"]
    head = next(f for f in scn["frames"] if f["note"].startswith("variant "))
    hb = bytes.fromhex(head["hex"])
    if idx < len(cat):
        entry = cat[idx]
        n = len(hb) - 8
        c.hit("len_class:" + _len_class(entry, n))
        res.extra.setdefault("catalogue_entries_sent", core.Counters()).hit(entry["name"])
        if any(off < n < off + size for off, size in entry["arrays"]):
            c.hit("A-array_truncated")
        if hb[2] == 0x13 and hb[3] != 0x80 and n == 0:
            c.hit("mga_empty_payload")
    else:
        c.hit("undocumented_id")
    v = _judge_reader(scn, res)
    if v is not None:
        bad = dict(scn)
        bad["clause"], bad["detail"] = v[0] + "|" + v[2], v[1]
        res.violations.append(bad)
    # the parse() half: every UBX frame on the wire, all option combinations
    seen_parse_violation = False
    seen_frames = set()
    for f in scn["frames"]:
        if f["kind"] != "ubx":
            continue
        data = link.frame_bytes(f)
        if data in seen_frames:
            continue
        seen_frames.add(data)
        heavy = False
        for mm in (0, 1, 2, 3):
            for val in (1, 0):
                for pbf in (1, 0):
                    if heavy and (val, pbf) != (1, 1):
                        continue
                    pv, outcome = _judge_parse(data, mm, val, pbf)
                    if _LAST_COST[0] > HEAVY:
                        heavy = True
                        c.hit("heavy_parses")
                    res.evaluations += 1
                    if outcome:
                        c.hit("parse:" + outcome)
                    if pv is not None and not seen_parse_violation:
                        seen_parse_violation = True
                        res.violations.append(
                            {"seed": seed, "mode": "parse", "frames": [f], "msgmode": mm, "validate": val, "parsebitfield": pbf, "clause": pv[0] + "|" + pv[2], "detail": pv[1]}
                        )
    # ... and arbitrary byte strings (the property says "for every byte string"): garbage over the
    # frame alphabet, prefixes / suffixes / splices of the frames on this wire
    r_arb = core.stream(seed, "arbitrary")
    wire = link.wire_of(scn["frames"])
    strings = [device.garbage(r_arb, n=r_arb.randrange(0, 24), alphabet=device.FRAME_ALPHABET)]
    if wire:
        a = r_arb.randrange(len(wire))
        strings.append(wire[a : a + r_arb.randrange(0, 64)])
        strings.append(hb[: r_arb.randrange(0, len(hb) + 1)])
        strings.append(hb[:6] + device.garbage(r_arb, n=r_arb.randrange(0, 12)) + hb[-2:])
    if (seed if unit.get("index") is None else unit["index"]) % OVERSIZE_EVERY == OVERSIZE_EVERY - 1:
        # inputs whose size no 16-bit length field can describe (with right, zero, maximal and random length fields)
        body = hb[2:4] + r_arb.choice((b"\x00\x00", b"\xff\xff", b"\x01\x00", bytes((r_arb.randrange(256), r_arb.randrange(256)))))
        big = b"\xb5\x62" + body + bytes(r_arb.choice((65528, 65536, 65540, 70000)))
        from sim import wire as W  # pylint: disable=import-outside-toplevel

        strings.append(big + W.fletcher8(big[2:]))
        strings.append(b"\xb5\x62\x99\x99" + body[2:] + bytes(66000) + b"\x00\x00")
        c.hit("oversize_inputs_parsed", 2)
    for data in strings:
        mm, val, pbf = r_arb.randrange(4), r_arb.randrange(2), r_arb.randrange(2)
        pv, outcome = _judge_parse(data, mm, val, pbf)
        res.evaluations += 1
        c.hit("arbitrary_strings_parsed")
        if outcome:
            c.hit("parse:" + outcome)
        if pv is not None and not seen_parse_violation:
            seen_parse_violation = True
            res.violations.append(
                {"seed": seed, "mode": "parse", "frames": [{"kind": "garbage", "hex": data.hex(), "faults": [], "note": "arbitrary bytes"}], "msgmode": mm, "validate": val, "parsebitfield": pbf, "clause": pv[0] + "|" + pv[2], "detail": pv[1]}
            )
    if seed % 1777 == 0:
        res.samples.append(common.sample_of(scn))
    return res


def batches(tier, base_seed):
    # quick: a fixed seed block whose indices cover the catalogue several times
    i = 0
    batch = 200
    while True:
        if tier == "quick" and i >= QUICK_RUNS:
            return
        yield [{"seed": core.run_seed(base_seed, i + j), "index": i + j} for j in range(batch)]
        i += batch


def finish_evidence(ev, total, tier):
    sent = total.extra.get("catalogue_entries_sent", {})
    cat = device.catalogue()
    names = {e["name"] for e in cat}
    ev["coverage"]["catalogue_size"] = len(cat)
    ev["coverage"]["catalogue_entries_covered"] = len(set(sent) & names)
    ev["coverage"].pop("catalogue_entries_sent", None)
    catch = ["UBXMessageError", "UBXTypeError", "UBXParseError", "UBXStreamError", "NMEAMessageError", "NMEATypeError", "NMEAParseError", "NMEAStreamError", "RTCMMessageError", "RTCMParseError", "RTCMStreamError", "RTCMTypeError"]
    probes = ev["coverage"]["probes"]
    ev["coverage"]["catch_list_classes_triggered"] = {k: probes.get("raised:" + k, 0) for k in catch}
    ev["coverage"]["catch_list_classes_never_triggered"] = [k for k in catch if not probes.get("raised:" + k)]
