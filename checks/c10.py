"""
C10 - reader output does not depend on how the transport chunks the bytes.

Simulated sender + link + SimSocket under a seeded arrival schedule and virtual clock:
segmentation, coalescing, bufsize clipping, end condition.  Oracle: relational - items from
the socket run equal items from io.BytesIO on the same wire - plus a byte-queue reference
model for SocketWrapper.read(n)/readline() checked call by call.  Short wires (<= 12 bytes)
get *every* segmentation.
"""

import io

from checks import common
from sim import core, device, link, sched, wire as W
from sim.observe import canon_parsed, reader_kwargs, run_reader
from sim.runner import UnitResult
from sim.transports import SimBudgetExceeded, SimSocket

PROPERTY = "C10"
LEVEL = "exploration"
RULE = (
    "seeded wires (clean mixed-protocol sequences and garbage/mutated ones) x seeded arrival schedules "
    "(segment sizes biased to land inside sync / class-id / length / payload / checksum / NMEA header, "
    "body, CRLF / RTCM header, payload, CRC and on frame boundaries; gaps 0 => coalescing) x bufsize in "
    "{1,2,3,5,8,16,64,1024,4096} x end in {close, timeout}; every segmentation of basket wires <= 12 bytes; "
    "seeded read(n)/readline() call sequences against SocketWrapper with a byte-queue model; non-trivial = "
    "socket run with >= 2 recv() results and >= 1 item; distinct = distinct SHA-256 of (wire, config, recv ledger)"
)
ASSUMPTIONS = common.BASE_ASSUMPTIONS + [
    "no mid-stream timeout occurs (gaps shorter than the socket timeout): the property only speaks of the end of the stream",
    "real TCP delivery from a concurrent OS thread is replaced by the simulated sender task + scheduler (uncontrolled OS scheduling would not replay)",
]
REAL_VS_STUB = common.REAL_VS_STUB
QUICK_RUNS = 90000
QUICK_MODEL_RUNS = 50000
GIANT_EVERY = 257  # one reader scenario in 257 carries a frame at the limits of the U2 length field
EXPECTED_PROBES = {
    t: [
        "chunk_boundary_ubx_sync", "chunk_boundary_ubx_length", "chunk_boundary_ubx_checksum", "chunk_boundary_nmea_crlf",
        "chunk_boundary_rtcm_hdr", "chunk_boundary_rtcm_crc", "chunk_boundary_frame_boundary", "end_close", "end_timeout",
        "bufsize_1", "bufsize_4096", "model_runs", "model_readline_calls", "exhaustive_segmentations", "coalesced_recv", "giant_frame_wires", "long_pause_blocking_socket",
    ]
    for t in ("quick", "thorough")
}

SHORT_WIRES = [
    ("ubx ack", W.ubx_frame(0x05, 0x01, b"\x06\x01")),
    ("ubx poll", W.ubx_frame(0x0A, 0x04, b"")),
    ("nmea tiny", b"$GPQQQ*46\r\n"),
    ("rtcm empty + ubx poll", (W.rtcm_frame(b"") + W.ubx_frame(0x06, 0x00, b""))[:12]),
    ("rtcm 2", W.rtcm_frame(b"\x3e\xd0\x00")),
    ("junk+poll", b"\xb5\x24" + W.ubx_frame(0x06, 0x00, b"")),
    ("lf-less nmea", b"$GPQQQ*46\r"),
    ("truncated ubx", W.ubx_frame(0x05, 0x01, b"\x06\x01")[:9]),
    ("two polls split", (W.ubx_frame(0x0A, 0x04, b"") + W.ubx_frame(0x06, 0x00, b""))[:12]),
    ("nmea + b5", b"$GPQQQ*46\n\xb5"),
]


def generate(seed: int, tier: str = "quick") -> dict:
    r_cfg = core.stream(seed, "config")
    r_dev = core.stream(seed, "device")
    r_lnk = core.stream(seed, "link")
    r_sch = core.stream(seed, "sched")
    cfg = common.draw_config_any(r_cfg, policies=(0, 1, 1, 2))
    pre = core.Counters()
    n = r_cfg.choice((1, 2, 3, 4, 6, 9))
    if r_cfg.random() < 0.6:
        frames = common.gen_frames(r_dev, n, cfg, mix=r_cfg.choice((None, {"ubx": 1, "ubxc": 5, "nmea": 4, "rtcm": 3})))
        if r_cfg.random() < 0.3:
            frames = common.add_noise(r_lnk, frames, pre)
    else:
        frames = common.gen_mixed_frames(r_dev, r_lnk, n, cfg, pre)
    if seed % GIANT_EVERY == GIANT_EVERY - 1:
        # a frame at the limits of the 16-bit length field (payload 65535 / 65534 / 65279 bytes) between ordinary ones
        nbig = r_cfg.choice((0xFFFF, 0xFFFF, 0xFFFE, 0xFEFF, 0x8000)) if r_cfg.random() < 0.5 else device.block_length(r_dev)
        big = W.ubx_frame(r_cfg.choice((0x02, 0x66)), r_cfg.choice((0x13, 0x77)), device.payload_bytes(r_dev, nbig, r_cfg.choice(("zeros", "random"))))
        frames = frames[:2]
        frames.insert(r_cfg.randrange(len(frames) + 1), {"kind": "ubx", "hex": big.hex(), "faults": [], "note": f"giant ubx frame payload {nbig}"})
        pre.hit("giant_frame_wires")
    spans = sched.spans_of(frames)
    wire_len = spans[-1][1] if spans else 0
    tr = common.draw_transport(r_sch, wire_len, spans, kinds=("socket", "socket", "socket", "socket", "tlssocket"))
    cfg["bufsize"] = r_sch.choice(sched.BUFSIZES)
    if r_cfg.random() < 0.3:
        cfg["writes"] = sorted({r_cfg.randrange(1, 8) for _ in range(r_cfg.randrange(1, 4))})  # after these many items the application sends a poll
    if wire_len > 60000:
        cfg["bufsize"] = r_sch.choice((64, 1024, 4096, 4096, 65536))
        if len(tr.get("segments") or ()) > 400:
            sizes = sched.random_segments(r_sch, wire_len, spans, style="few")
            tr["segments"] = sched.timed_segments(r_sch, sizes, tr.get("timeout"))
    return {"seed": seed, "mode": "reader", "config": cfg, "frames": frames, "transport": tr, "pre_faults": dict(pre)}


def generate_model(seed: int) -> dict:
    """Call-sequence scenario for the wrapper alone."""
    r_dev = core.stream(seed, "device")
    r_sch = core.stream(seed, "sched")
    parts = []
    for _ in range(r_dev.randrange(0, 6)):
        k = r_dev.randrange(4)
        if k == 0:
            parts.append(device.nmea_any(r_dev)[0])
        elif k == 1:
            parts.append(device.garbage(r_dev, n=r_dev.choice((1, 3, 7, 20))))
        elif k == 2:
            parts.append(b"\n" * r_dev.randrange(1, 3))
        else:
            parts.append(device.ubx_common(r_dev)[0])
    wire = b"".join(parts)
    sizes = sched.random_segments(r_sch, len(wire), None, style=r_sch.choice(("single", "bytewise", "uniform", "few")))
    end = r_sch.choice(("close", "timeout"))
    tr = {"kind": "socket", "segments": sched.timed_segments(r_sch, sizes, 2.0), "timeout": 2.0, "end": end, "host_delay": r_sch.choice((0.0, 0.01))}
    calls = []
    for _ in range(r_sch.randrange(1, 25)):
        if r_sch.random() < 0.35:
            calls.append(["readline"])
        else:
            calls.append(["read", r_sch.choice((0, 1, 1, 2, 3, 4, 6, 9, 17, 50, 300))])
    return {"seed": seed, "mode": "model", "frames": [{"kind": "garbage", "hex": wire.hex(), "faults": [], "note": "model wire"}], "transport": tr, "bufsize": r_sch.choice(sched.BUFSIZES), "calls": calls}


def _file_items(wire, cfg):
    """Reference: the same wire through a plain io.BytesIO."""
    from pyubx2 import UBXReader  # pylint: disable=import-outside-toplevel

    kw = reader_kwargs(cfg)
    kw.pop("bufsize", None)
    kw["errorhandler"] = lambda err: None
    items = []
    try:
        for raw, parsed in UBXReader(io.BytesIO(wire), **kw):
            items.append((raw, canon_parsed(parsed)))
            if len(items) > len(wire) + 16:
                return None
    except common.proto_errors():
        if cfg.get("quitonerror") != 2:
            return None
    except Exception:  # pylint: disable=broad-except
        return None
    return items


def _run_reader_case(scn, res=None):
    cfg = scn["config"]
    wire = link.wire_of(scn["frames"])
    ref = _file_items(wire, cfg)
    if ref is None:
        if res is not None:
            res.skipped_base_failed += 1
        return None
    out = run_reader(wire, cfg, scn["transport"])
    if res is not None:
        res.evaluations += 2
        res.sim_seconds += out.transport.sim_seconds
        c = res.counters
        tr = scn["transport"]
        c.hit("end_" + str(tr.get("end")))
        c.hit("kind_" + str(tr.get("kind")))
        c.hit(f"bufsize_{cfg.get('bufsize')}")
        spans = sched.spans_of(scn["frames"])
        off = 0
        for ent in out.transport.ledger:
            n = ent[3]
            if isinstance(n, int) and n > 0:
                off = ent[1] + n
                if off < len(wire):
                    c.hit("chunk_boundary_" + sched.pos_class(spans, off))
        nrecv = sum(1 for e in out.transport.ledger if isinstance(e[3], int) and e[3] > 0)
        segs = tr.get("segments") or []
        if nrecv < len(segs):
            c.hit("coalesced_recv")
        if any(isinstance(e[3], int) and e[3] == e[2] and e[2] < 4096 for e in out.transport.ledger):
            c.hit("fault_bufsize_clip")
        c.hit("fault_segment", max(len(segs) - 1, 0))
        if tr.get("timeout") is None and any(b[0] - a[0] > 0.5 for a, b in zip(segs, segs[1:])):
            c.hit("long_pause_blocking_socket")
        for k, v in (scn.get("pre_faults") or {}).items():
            c.hit(k, v)
        link.count_fired(scn["frames"], c)
        res.log((wire, sorted(cfg.items()), out.transport.ledger), nrecv >= 2 and bool(out.items))
    if out.hang:
        return ("socket_run_hangs", out.hang)
    if out.exc and cfg.get("quitonerror") != 2:
        return ("socket_run_raises", str(out.exc))
    if out.items != ref:
        i = 0
        while i < min(len(ref), len(out.items)) and ref[i] == out.items[i]:
            i += 1
        exp = ref[i][0].hex() if i < len(ref) else None
        got = out.items[i][0].hex() if i < len(out.items) else None
        return ("socket_items_differ_from_file_items", f"first difference at item {i}: file={exp} socket={got} (file n={len(ref)}, socket n={len(out.items)})")
    return None


def _run_model_case(scn, res=None):
    from pyubx2.socket_wrapper import SocketWrapper  # pylint: disable=import-outside-toplevel

    wire = link.wire_of(scn["frames"])
    sock = SimSocket(wire, scn["transport"])
    pos = 0  # model: bytes consumed so far
    verdict = None
    try:
        core.VirtualClock.source = sock
        sw = SocketWrapper(sock, bufsize=scn["bufsize"])
        for i, call in enumerate(scn["calls"]):
            remaining = wire[pos:]
            if call[0] == "read":
                n = call[1]
                got = sw.read(n)
                if res is not None:
                    res.counters.hit("model_read_calls")
                if not isinstance(got, bytes):
                    verdict = ("wrapper_read_not_bytes", f"call {i} read({n}) returned {type(got).__name__}")
                    break
                if len(got) not in (0, n):
                    verdict = ("wrapper_read_wrong_length", f"call {i} read({n}) returned {len(got)} bytes")
                    break
                if len(got) == 0 and n > 0 and len(remaining) >= n:
                    verdict = ("wrapper_read_empty_with_data_remaining", f"call {i} read({n}) returned nothing although {len(remaining)} bytes remain")
                    break
                if got != remaining[: len(got)]:
                    verdict = ("wrapper_read_wrong_bytes", f"call {i} read({n}) returned {got.hex()} expected {remaining[:n].hex()}")
                    break
                pos += len(got)
            else:
                got = sw.readline()
                if res is not None:
                    res.counters.hit("model_readline_calls")
                lf = remaining.find(b"\n")
                if lf >= 0:
                    if got != remaining[: lf + 1]:
                        verdict = ("wrapper_readline_wrong", f"call {i} readline() returned {bytes(got).hex()} expected {remaining[:lf + 1].hex()}")
                        break
                elif got != remaining[: len(got)]:
                    verdict = ("wrapper_readline_wrong", f"call {i} readline() returned {bytes(got).hex()} which is not a prefix of the remaining {remaining.hex()}")
                    break
                pos += len(got)
    except SimBudgetExceeded as err:
        verdict = ("wrapper_hangs", str(err))
    except Exception as err:  # pylint: disable=broad-except
        verdict = ("wrapper_raises", f"{type(err).__name__}: {err}")
    finally:
        core.VirtualClock.source = None
    if res is not None:
        res.evaluations += 1
        res.counters.hit("model_runs")
        res.sim_seconds += sock.now
        res.log((wire, scn["bufsize"], scn["calls"], sock.ledger), len(sock.ledger) >= 2 and pos > 0)
    return verdict


def execute(scn):
    if scn.get("mode") == "model":
        return _run_model_case(scn)
    return _run_reader_case(scn)


def _exhaustive_unit(unit, res):
    """Every segmentation of one short wire x bufsizes x end conditions."""
    note, wire = SHORT_WIRES[unit["short"]]
    frames = [{"kind": "garbage", "hex": wire.hex(), "faults": [], "note": note}]
    for cfg0 in ({"quitonerror": 1}, {"quitonerror": 0, "validate": 0, "msgmode": 3}):
        for sizes in sched.all_segmentations(len(wire)):
            for bufsize in (1, 3, 4096):
                for end in ("close", "timeout"):
                    cfg = dict(cfg0, bufsize=bufsize, handler=True)
                    tr = {"kind": "socket", "segments": [[float(i), n] for i, n in enumerate(sizes)], "timeout": 2.0, "end": end, "host_delay": 0.0}
                    scn = {"seed": 0, "mode": "reader", "config": cfg, "frames": frames, "transport": tr}
                    v = _run_reader_case(scn, res)
                    res.runs += 1
                    res.counters.hit("exhaustive_segmentations")
                    if v is not None and len(res.violations) < 3:
                        bad = dict(scn)
                        bad["clause"], bad["detail"] = v
                        res.violations.append(bad)


def run_unit(unit) -> UnitResult:
    res = UnitResult()
    if "short" in unit:
        _exhaustive_unit(unit, res)
        return res
    if unit.get("model"):
        scn = generate_model(unit["seed"])
        res.runs = 1
        v = _run_model_case(scn, res)
    else:
        scn = generate(unit["seed"])
        res.runs = 1
        v = _run_reader_case(scn, res)
    if unit["seed"] % 3001 == 0:
        res.samples.append(common.sample_of(scn))
    if v is not None:
        bad = dict(scn)
        bad["clause"], bad["detail"] = v
        res.violations.append(bad)
    return res


def batches(tier, base_seed):
    n_short = len(SHORT_WIRES) if tier != "selftest" else 1
    for i in range(n_short):
        yield [{"short": i}]
    if tier == "quick":
        yield from common.seed_batches(tier, base_seed, QUICK_RUNS)
        for b in common.seed_batches(tier, base_seed, QUICK_MODEL_RUNS):
            yield [dict(u, model=True) for u in b]
        return
    ga = common.seed_batches(tier, base_seed, 0)
    gb = common.seed_batches(tier, base_seed, 0)
    while True:
        yield next(ga)
        yield next(ga)
        yield [dict(u, model=True) for u in next(gb)]


def finish_evidence(ev, total, tier):
    ev["coverage"]["exhaustive"] = False
    ev["coverage"]["exhaustive_part"] = (
        f"all 2^(n-1) segmentations of {len(SHORT_WIRES)} basket wires of <= 12 bytes x bufsize {{1,3,4096}} x "
        "{close, timeout} x 2 configurations; everything else is sampled"
    )
