"""
C13 - messages are immutable and parsing/generating has no side effects.

One kind of run - a *history of operations* executed by one or several caller threads in a
process that has imported pyubx2 but never used it (every run happens in a freshly forked
child, so its starting state equals that of a fresh interpreter and a replay reproduces):

  (a) histories, one thread: seeded sequences of 5-200 operations + a fixed probe set; every
      result must equal its *cold golden* (the same operation executed first in a pristine process);
  (b) schedules, several threads: 2-4 real threads under the baton-passing scheduler
      (sim/threads.py) that decides every switch at line (or instruction) granularity;
  (c) side-effect ledger: fds 1/2 and sys.stdout/sys.stderr are redirected to private sinks that must
      stay empty; a digest of the shared definition/config tables must not change;
  (d) immutability: every attempt to set or delete an attribute of a live message must raise
      UBXMessageError and leave the message's serialization, str() and attributes unchanged.
"""

import hashlib
import io
import json
import marshal
import os
import sys
import traceback

from checks import common
from sim import core, device, minimise, wire as W
from sim.runner import UnitResult
from sim.threads import run_threads

PROPERTY = "C13"
LEVEL = "exploration"
RULE = (
    "operation catalogue built from the shipped tables (parse of nominal / truncated / random frames of "
    "every definition x mode x bitfield setting; construction by bytes/int/name with fed-back, nominal and "
    "wrong-typed keywords; config_set/del/poll; inspect / setattr / delattr on live messages); seeded "
    "single-thread histories (5-200 ops + probes) and 2-4 thread runs whose every switch is chosen by the "
    "simulator (random p-switch or PCT change points; line or instruction granularity); non-trivial = "
    "history with >= 1 aborted operation or >= 1 refused mutation, or threaded run with >= 2 switches; "
    "distinct = distinct SHA-256 of the operation list (+ the switch decision sequence)"
)
ASSUMPTIONS = common.BASE_ASSUMPTIONS + [
    "cold golden = the operation executed as the first library call of a freshly forked process that has only imported pyubx2",
    "thread interleavings are explored at line granularity (sys.settrace) and, in a fraction of runs, at bytecode-instruction granularity (sys.monitoring); C-level atomicity of single bytecodes is assumed",
    "the reader's ERR_LOG logging is outside the property's wording and not monitored here",
]
REAL_VS_STUB = common.REAL_VS_STUB
QUICK_RUNS = 5200
O_SLICE_UNITS = 24
EXPECTED_PROBES = {
    t: ["history_runs", "thread_runs", "aborted_ops", "setattr_attempts", "delattr_attempts", "thread_switches", "cfgtp5_poll_ops", "config_ops", "construct_ops", "read_ops", "switch_inside__set_attribute", "sweep_runs"]
    for t in ("quick", "thorough")
}

_GOLD = {}  # key(op) -> result (JSON-able)
_CAT = None
_COLD_VIOLATIONS = []
CHILD_TIMEOUT_S = 600  # watchdog for a wedged child only (wall clock, generous: a loaded machine must not trip it)


# -------------------------------------------------------------------------------------------
# values <-> JSON
# -------------------------------------------------------------------------------------------


def enc(v):
    if isinstance(v, bytes):
        return {"b": v.hex()}
    if isinstance(v, float):
        return {"f": repr(v)}
    if isinstance(v, list):
        return [enc(x) for x in v]
    return v


def dec(v):
    if isinstance(v, dict):
        if "b" in v:
            return bytes.fromhex(v["b"])
        if "f" in v:
            return float(v["f"])
    if isinstance(v, list):
        return [dec(x) for x in v]
    return v


def key(op) -> str:
    return json.dumps(op, sort_keys=True, separators=(",", ":"))


# -------------------------------------------------------------------------------------------
# executing one operation
# -------------------------------------------------------------------------------------------


def _snapshot(msg):
    """What must never change about a live message."""
    try:
        ser = msg.serialize().hex()
    except Exception as err:  # pylint: disable=broad-except
        ser = f"!serialize {type(err).__name__}: {err}"
    try:
        s = str(msg)
    except Exception as err:  # pylint: disable=broad-except
        s = f"!str {type(err).__name__}: {err}"
    try:
        attrs = sorted((k, repr(v)) for k, v in msg.__dict__.items() if not k.startswith("_"))
    except Exception as err:  # pylint: disable=broad-except
        attrs = f"!dict {type(err).__name__}"
    return [ser, s, hashlib.sha256(repr(attrs).encode()).hexdigest()[:16]]


def _msg_result(msg):
    try:
        first_str = str(msg)
        first_repr = repr(msg)
    except Exception:  # pylint: disable=broad-except
        first_str = first_repr = None
    snap = _snapshot(msg)
    if first_str is not None:
        try:
            if str(msg) != first_str or repr(msg) != first_repr:
                return ["MUTATED", "str() / repr() of the message changed after it was serialized and printed once"]
        except Exception as err:  # pylint: disable=broad-except
            return ["MUTATED", f"str() worked before serialize() and raises {type(err).__name__} after it"]
    try:
        r = repr(msg)
    except Exception as err:  # pylint: disable=broad-except
        r = f"!repr {type(err).__name__}: {err}"
    try:
        ident = msg.identity
    except Exception as err:  # pylint: disable=broad-except
        ident = f"!identity {type(err).__name__}: {err}"
    return ["ok", snap[0], snap[1], hashlib.sha256(r.encode()).hexdigest()[:16], snap[2], ident]


def _make(op):
    """Create the message a parse/new/cfg op describes (may raise)."""
    from pyubx2 import UBXMessage, UBXReader  # pylint: disable=import-outside-toplevel

    o = op["o"]
    if o == "parse":
        return UBXReader.parse(bytes.fromhex(op["hex"]), msgmode=op["mm"], validate=op["val"], parsebitfield=op["pbf"])
    if o == "new":
        cls, mid = dec(op["cls"]), dec(op["id"])
        kw = {k: dec(v) for k, v in op.get("kw", {}).items()}
        return UBXMessage(cls, mid, op["mode"], parsebitfield=op.get("pbf", 1), **kw)
    if o == "cfgset":
        return UBXMessage.config_set(op["layers"], op["txn"], [(dec(k), dec(v)) for k, v in op["data"]])
    if o == "cfgdel":
        return UBXMessage.config_del(op["layers"], op["txn"], [dec(k) for k in op["keys"]])
    if o == "cfgpoll":
        return UBXMessage.config_poll(op["layer"], op["pos"], [dec(k) for k in op["keys"]])
    raise ValueError(o)


def _read_result(op):
    """Iterate a UBXReader over an in-memory stream (errors go to a handler, never to the logger)."""
    from pyubx2 import UBXReader  # pylint: disable=import-outside-toplevel

    errs = []
    ubr = UBXReader(
        io.BytesIO(bytes.fromhex(op["hex"])),
        msgmode=op["mm"],
        validate=op.get("val", 1),
        quitonerror=op["q"],
        parsebitfield=op.get("pbf", 1),
        protfilter=op.get("pf", 7),
        errorhandler=lambda err: errs.append(f"{type(err).__name__}: {err}"),
    )
    items = []
    try:
        for raw, parsed in ubr:
            items.append((raw.hex(), str(parsed)))
            if len(items) > 400:
                break
        end = "end"
    except Exception as err:  # pylint: disable=broad-except
        end = f"{type(err).__name__}: {err}"
    h = hashlib.sha256(repr((items, errs)).encode()).hexdigest()[:16]
    return ["ok", "read", len(items), len(errs), end, h]


def run_op(op, pool=None):
    """
    Execute one operation; returns a JSON-able result.  For ops on a live message
    (inspect/set/del) `pool` maps the op's "pool" index to the message; without a pool the
    message is created from op["msg"] first (cold golden).
    Result forms: ["ok", ...] | ["exc", type, message] | ["refused", type] | ["MUTATED", what]
    """
    o = op["o"]
    try:
        if o == "read":
            return _read_result(op)
        if o == "poke":
            # build a message, then change its list-valued attributes IN PLACE (legal Python on the
            # caller's own object; no attribute is assigned).  Nothing else in the process may notice.
            msg = _make(op["msg"])
            res = _msg_result(msg)
            for val in list(msg.__dict__.values()):
                if isinstance(val, list) and val:
                    val[0] = (val[0] + 1) % 256 if isinstance(val[0], int) else val[0]
                    val.append(7)
                    val.reverse()
            return res
        if o in ("parse", "new", "cfgset", "cfgdel", "cfgpoll"):
            return _msg_result(_make(op))
        msg = pool[op["pool"]] if pool is not None else _make(op["msg"])
        if o == "inspect":
            return _msg_result(msg)
        if o == "iadd" and not hasattr(msg, op["name"]):
            return ["refused", "absent"]
        before = _snapshot(msg)
        had = op["name"] in getattr(msg, "__dict__", {}) or hasattr(type(msg), op["name"])
        try:
            if o == "iadd":
                # `msg.name += value`: read the attribute, apply the in-place operator (which mutates a
                # mutable object where it stands), assign the result back - the assignment must be
                # refused AND nothing about the message may have changed
                cur = getattr(msg, op["name"])
                if isinstance(cur, (bytes, bytearray)):
                    cur += b"\x2a"
                elif isinstance(cur, list):
                    cur += [42]
                elif isinstance(cur, str):
                    cur += "*"
                elif isinstance(cur, (int, float)) and not isinstance(cur, bool):
                    cur += 1
                else:
                    cur = (cur, 42)
                setattr(msg, op["name"], cur)
            elif o == "set":
                setattr(msg, op["name"], dec(op["value"]))
            else:
                delattr(msg, op["name"])
            outcome = ["MUTATED", f"{o} {op['name']} did not raise"]
        except Exception as err:  # pylint: disable=broad-except
            tname = type(err).__name__
            if tname == "UBXMessageError" or (o == "del" and not had and tname == "AttributeError"):
                outcome = ["refused", "UBXMessageError" if had or o in ("set", "iadd") else "refused-absent"]
            else:
                outcome = ["MUTATED", f"{o} {op['name']} raised {tname} instead of UBXMessageError"]
        after = _snapshot(msg)
        if after != before:
            return ["MUTATED", f"message changed after {o} {op['name']}: {before[0][:40]} -> {after[0][:40]}"]
        return outcome
    except Exception as err:  # pylint: disable=broad-except
        return ["exc", type(err).__name__, str(err)]


# -------------------------------------------------------------------------------------------
# side-effect ledgers
# -------------------------------------------------------------------------------------------


def tables_digest():
    from pyubx2 import ubxtypes_configdb as db  # pylint: disable=import-outside-toplevel
    from pyubx2 import ubxtypes_core as c  # pylint: disable=import-outside-toplevel
    from pyubx2 import ubxtypes_decodes as d  # pylint: disable=import-outside-toplevel
    from pyubx2 import ubxtypes_get as g  # pylint: disable=import-outside-toplevel
    from pyubx2 import ubxtypes_poll as p  # pylint: disable=import-outside-toplevel
    from pyubx2 import ubxtypes_set as s  # pylint: disable=import-outside-toplevel
    from pyubx2 import ubxvariants as v  # pylint: disable=import-outside-toplevel

    h = hashlib.blake2b(digest_size=16)
    for t in (g.UBX_PAYLOADS_GET, s.UBX_PAYLOADS_SET, p.UBX_PAYLOADS_POLL, c.UBX_MSGIDS, c.UBX_CLASSES, db.UBX_CONFIG_DATABASE, db.UBX_CONFIG_STORSIZE):
        h.update(marshal.dumps(t, 2))
    h.update(repr({k: [(kk, vv.__qualname__) for kk, vv in vvv.items()] for k, vvv in v.VARIANTS.items()}).encode())
    h.update(repr([(k, repr(t)) for k, t in c.ATTTYPE.items()]).encode())
    for name in sorted(n for n in dir(d) if n.isupper()):
        h.update(name.encode())
        h.update(marshal.dumps(getattr(d, name), 2))
    return h.hexdigest()


def _default_logging():
    """Undo the simulator's own logger set-up: an application that has not configured logging."""
    import logging  # pylint: disable=import-outside-toplevel

    for name in ("pyubx2", "pynmeagps", "pyrtcm"):
        lg = logging.getLogger(name)
        for h in list(lg.handlers):
            lg.removeHandler(h)
        lg.propagate = True
        lg.disabled = False


class Ledger:
    """fd-level and sys-level capture of anything written to stdout / stderr."""

    def __init__(self):
        _default_logging()
        self.fd = os.memfd_create("c13-ledger")
        sys.stdout.flush()
        sys.stderr.flush()
        self.saved = (os.dup(1), os.dup(2))
        os.dup2(self.fd, 1)
        os.dup2(self.fd, 2)
        self.py_out, self.py_err = io.StringIO(), io.StringIO()
        self.saved_py = (sys.stdout, sys.stderr)
        sys.stdout, sys.stderr = self.py_out, self.py_err

    def written(self) -> str:
        n = os.fstat(self.fd).st_size
        txt = self.py_out.getvalue() + self.py_err.getvalue()
        if n:
            txt += os.pread(self.fd, min(n, 300), 0).decode("utf-8", "replace")
        return txt

    def close(self):
        sys.stdout, sys.stderr = self.saved_py
        os.dup2(self.saved[0], 1)
        os.dup2(self.saved[1], 2)
        os.close(self.saved[0])
        os.close(self.saved[1])
        os.close(self.fd)


# -------------------------------------------------------------------------------------------
# the operation catalogue
# -------------------------------------------------------------------------------------------


def _public_kwargs(msg):
    return {k: enc(v) for k, v in msg.__dict__.items() if not k.startswith("_")}


def build_catalogue():
    """The catalogue, built in a forked child so that this process never calls the library."""
    global _CAT  # pylint: disable=global-statement
    if _CAT is None:
        _CAT = in_child(_build_catalogue_body)
    return _CAT


def _build_catalogue_body():
    """Deterministic list of op descriptors + index lists by family."""
    from pyubx2 import UBX_CLASSES, UBXReader  # pylint: disable=import-outside-toplevel
    from pyubx2.ubxtypes_configdb import UBX_CONFIG_DATABASE  # pylint: disable=import-outside-toplevel

    rng = core.stream(13, "catalogue")
    ops, fam = [], {"parse": [], "aborted": [], "new": [], "cfg": [], "tp5": [], "mutate": [], "inspect": [], "variant": [], "read": [], "eqv": [], "arrays": [], "dupkey": [], "ref": [], "vals": []}
    pool_src = []

    def add(op, *families):
        ops.append(op)
        for f in families:
            fam[f].append(len(ops) - 1)

    cat = device.catalogue()
    for e in cat:
        modes = e["modes"] or [0]
        for mode in modes:
            lens = sorted(set(e["lens"][:3] + [0, max(0, e["lens"][0] - 1), e["lens"][-1] + 3]))[:5]
            for n in lens:
                for style in ("zeros", "small"):
                    pl = bytearray(device.payload_bytes(rng, n, style))
                    if e["typ"] is not None and n:
                        pl[0] = e["typ"]
                    fr = W.ubx_frame(e["cls"], e["mid"], bytes(pl))
                    for pbf in (1, 0) if style == "zeros" else (1,):
                        op = {"o": "parse", "hex": fr.hex(), "mm": mode, "val": 1, "pbf": pbf}
                        fams = ["parse"]
                        if e["cls"] == 0x06 and e["mid"] == 0x31 and mode == 2:
                            fams.append("tp5")
                        if e["typ"] is not None or len(e["lens"]) > 4:
                            fams.append("variant")
                        add(op, *fams)
            # the same message with other VALUES in its fields (flags set, large and negative numbers): what a
            # parse may learn from the data it sees must not leak into later results
            for style in ("random", "random", "ff", "7f"):
                n0 = e["lens"][-1]  # the longest defined form
                pl = bytearray(device.payload_bytes(rng, n0, style) if style != "7f" else b"\x7f" * n0)
                if e["typ"] is not None and n0:
                    pl[0] = e["typ"]
                add({"o": "parse", "hex": W.ubx_frame(e["cls"], e["mid"], bytes(pl)).hex(), "mm": mode, "val": 1, "pbf": 1}, "parse", "vals")
            # SETPOLL auto-detection
            if mode in (1, 2):
                fr = W.ubx_frame(e["cls"], e["mid"], bytes(e["lens"][0]))
                add({"o": "parse", "hex": fr.hex(), "mm": 3, "val": 1, "pbf": 1}, "parse")
        # construction: null payload, three addressing forms
        clsb, midb = bytes([e["cls"]]), bytes([e["mid"]])
        mode = modes[0]
        add({"o": "new", "cls": enc(clsb), "id": enc(midb), "mode": mode, "kw": {}}, "new")
        add({"o": "new", "cls": e["cls"], "id": e["mid"], "mode": mode, "kw": {}}, "new")
        cname = UBX_CLASSES.get(clsb)
        if cname and e["typ"] is None:
            add({"o": "new", "cls": cname, "id": e["name"], "mode": mode, "kw": {}}, "new")
    # keyword construction: feed parsed attributes back (and break one of them)
    n_parse = len(ops)
    for i in range(0, n_parse, 7):
        op = ops[i]
        if op["o"] != "parse" or op["mm"] == 3:
            continue
        try:
            msg = UBXReader.parse(bytes.fromhex(op["hex"]), msgmode=op["mm"], validate=1, parsebitfield=op["pbf"])
        except Exception:  # pylint: disable=broad-except
            continue
        kw = _public_kwargs(msg)
        if not kw or len(kw) > 60:
            continue
        base = {"o": "new", "cls": enc(msg.msg_cls), "id": enc(msg.msg_id), "mode": op["mm"], "pbf": op["pbf"], "kw": kw}
        add(base, "new")
        k0 = sorted(kw)[len(kw) // 2]
        bad = dict(base, kw=dict(kw, **{k0: "not-a-number"}))
        add(bad, "new", "aborted")
        bad2 = dict(base, kw=dict(kw, **{k0: -(2**70)}))
        add(bad2, "new", "aborted")
    # aborted parses: frames truncated mid-attribute with random content (raise midway)
    for e in cat[::3]:
        if e["lens"][-1] < 6:
            continue
        n = e["lens"][-1] - 3
        fr = W.ubx_frame(e["cls"], e["mid"], device.payload_bytes(rng, n, "random"))
        add({"o": "parse", "hex": fr.hex(), "mm": (e["modes"] or [0])[0], "val": 1, "pbf": 1}, "parse", "aborted")
        add({"o": "parse", "hex": fr[:-1].hex() + "00", "mm": 0, "val": 1, "pbf": 1}, "parse", "aborted")
    # values that compare equal but are not the same value / type (0.0, -0.0, 0, False; 1, 1.0, True):
    # a result may not depend on which of them was converted first
    eqv = []
    for mode, tab_name in ((1, "SET"), (0, "GET")):
        for e in cat:
            if mode not in e["modes"] or e["typ"] is not None:
                continue
            try:
                msg = UBXReader.parse(W.ubx_frame(e["cls"], e["mid"], bytes(e["lens"][1] if len(e["lens"]) > 1 else e["lens"][0])), msgmode=mode)
            except Exception:  # pylint: disable=broad-except
                continue
            kw = _public_kwargs(msg)
            fl = [k for k, v in kw.items() if isinstance(v, dict) and "f" in v]
            it = [k for k, v in kw.items() if isinstance(v, int) and not isinstance(v, bool)]
            if not kw or len(kw) > 40 or not (fl or it):
                continue
            base = {"o": "new", "cls": enc(msg.msg_cls), "id": enc(msg.msg_id), "mode": mode, "kw": kw}
            group = [base]
            if fl:
                group.append(dict(base, kw=dict(kw, **{fl[0]: {"f": "-0.0"}})))
                group.append(dict(base, kw=dict(kw, **{fl[0]: 0})))
                group.append(dict(base, kw=dict(kw, **{fl[0]: {"f": "1.0"}})))
                group.append(dict(base, kw=dict(kw, **{fl[0]: 1})))
            if it:
                group.append(dict(base, kw=dict(kw, **{it[0]: 1})))
                group.append(dict(base, kw=dict(kw, **{it[0]: {"f": "1.0"}})))
                group.append(dict(base, kw=dict(kw, **{it[0]: True})))
                group.append(dict(base, kw=dict(kw, **{it[0]: False})))
                group.append(dict(base, kw=dict(kw, **{it[0]: {"f": "0.0"}})))
            for g in group:
                add(g, "new", "eqv")
            eqv.append(len(group))
            if len(eqv) >= 24:
                break
    # frames that NAME another message (ACK-ACK / ACK-NAK / CFG-MSG): str() resolves the reference
    for _ in range(70):
        fr, _note = device.ubx_ref(rng)
        mm = 0 if fr[2] == 0x05 else rng.choice((1, 2, 3)) if len(fr) <= 11 else 1
        add({"o": "parse", "hex": fr.hex(), "mm": mm if fr[2] != 0x05 else 0, "val": 1, "pbf": 1}, "parse", "ref")
    # messages with array-valued attributes built from keywords (nominal arrays), plain and "poked"
    for e in cat:
        if not e["arrays"] or e["typ"] is not None:
            continue
        for mode in e["modes"] or [0]:
            clsb, midb = bytes([e["cls"]]), bytes([e["mid"]])
            for kw in ({"version": 0}, {"version": 0, "numRfBlocks": 2}, {"version": 1, "numRfBlocks": 1}):
                base = {"o": "new", "cls": enc(clsb), "id": enc(midb), "mode": mode, "kw": kw}
                add(base, "new", "arrays")
                add({"o": "poke", "msg": base}, "arrays")
                add(base, "new", "arrays")
    # stream reads: mixed-protocol wires through UBXReader (SETPOLL included: same identity in both modes)
    for i in range(60):
        parts = []
        mm = (0, 0, 1, 2, 3)[i % 5]
        for _ in range(rng.randrange(1, 7)):
            k = rng.random()
            if k < 0.5:
                cand = [ops[j] for j in (rng.choice(fam["parse"]) for _ in range(6)) if ops[j]["mm"] == (mm if mm != 3 else ops[j]["mm"]) and len(ops[j]["hex"]) < 400]
                parts.append(bytes.fromhex(cand[0]["hex"]) if cand else W.ubx_frame(0x05, 0x01, b"\x06\x01"))
            elif k < 0.7:
                parts.append(device.nmea_any(rng)[0])
            elif k < 0.9:
                parts.append(device.rtcm_any(rng)[0])
            else:
                parts.append(device.garbage(rng, n=rng.randrange(1, 6)))
        if mm == 3:
            parts.append(W.ubx_frame(0x06, 0x08, b""))
            parts.append(W.ubx_frame(0x06, 0x08, bytes.fromhex("e80301000100")))
            parts.append(W.ubx_frame(0x06, 0x08, b""))
        add({"o": "read", "hex": b"".join(parts).hex(), "mm": mm, "q": (0, 1, 2)[i % 3], "val": 1 if i % 4 else 0, "pbf": 1 if i % 7 else 0, "pf": 7 if i % 6 else 3}, "read")
    # configuration database helpers
    keys = list(UBX_CONFIG_DATABASE.items())
    for i in range(0, len(keys), 9):
        name, (kid, typ) = keys[i]
        t, size = typ[0], int(typ[1:])
        if t in ("U", "E", "L"):
            val = 1
        elif t == "I":
            val = -1
        elif t == "R":
            val = 1.5
        elif t == "X":
            val = b"\x01" * size
        else:
            val = b"A" * size
        add({"o": "cfgset", "layers": 1, "txn": 0, "data": [[name, enc(val)], [kid, enc(val)]]}, "cfg")
        add({"o": "cfgdel", "layers": 2, "txn": 1, "keys": [name, kid]}, "cfg")
        add({"o": "cfgpoll", "layer": 0, "pos": 0, "keys": [kid, name]}, "cfg")
    # key ids that occur more than once in the shipped database (found by scanning it), looked up repeatedly
    seen_ids, dup_ids = {}, []
    for name, (kid, typ) in UBX_CONFIG_DATABASE.items():
        if kid in seen_ids:
            dup_ids.append((kid, typ, seen_ids[kid], name))
        else:
            seen_ids[kid] = name
    for kid, typ, name1, name2 in dup_ids[:4]:
        size = int(typ[1:])
        body = bytes(4) + kid.to_bytes(4, "little") + bytes(size)
        for _ in range(2):
            add({"o": "parse", "hex": W.ubx_frame(0x06, 0x8B, body).hex(), "mm": 0, "val": 1, "pbf": 1}, "parse", "cfg", "dupkey")
            add({"o": "cfgpoll", "layer": 0, "pos": 0, "keys": [kid, kid]}, "cfg", "dupkey")
            add({"o": "cfgset", "layers": 1, "txn": 0, "data": [[name1, 0 if typ[0] in "UEIL" else enc(bytes(size))], [name2, 0 if typ[0] in "UEIL" else enc(bytes(size))]]}, "cfg", "dupkey")
            add({"o": "parse", "hex": W.ubx_frame(0x06, 0x8A, body + kid.to_bytes(4, "little") + bytes(size)).hex(), "mm": 1, "val": 1, "pbf": 1}, "parse", "cfg", "dupkey")
    # undocumented key ids (size codes 1..5) and CFG-VALGET / CFG-VALSET frames carrying them
    for kid, val in ((0x10FE0001, b"\x01"), (0x20FE0002, b"\x02"), (0x30FE0003, b"\x03\x00"), (0x40FE0004, b"\x04\x00\x00\x00"), (0x50FE0005, bytes(8))):
        add({"o": "cfgset", "layers": 1, "txn": 0, "data": [[kid, enc(val)]]}, "cfg", "variant")
        add({"o": "cfgpoll", "layer": 0, "pos": 0, "keys": [kid]}, "cfg")
        body = bytes(4) + kid.to_bytes(4, "little") + val
        add({"o": "parse", "hex": W.ubx_frame(0x06, 0x8B, body).hex(), "mm": 0, "val": 1, "pbf": 1}, "parse", "variant", "cfg")
        add({"o": "parse", "hex": W.ubx_frame(0x06, 0x8A, body).hex(), "mm": 1, "val": 1, "pbf": 1}, "parse", "variant", "cfg")
    for nm in ("CFG_0x10fe0001", "CFG_0X10FE0001", "CFG_0x1011001b", "CFG_0X1011001B", "cfg_0x20fe0002"):
        add({"o": "cfgset", "layers": 1, "txn": 0, "data": [[nm, enc(b"\x01")]]}, "cfg")
        add({"o": "cfgdel", "layers": 2, "txn": 0, "keys": [nm]}, "cfg")
        add({"o": "cfgpoll", "layer": 0, "pos": 0, "keys": [nm]}, "cfg")
    add({"o": "parse", "hex": W.ubx_frame(0x06, 0x8B, bytes(4) + (0x1011001B).to_bytes(4, "little") + b"\x01").hex(), "mm": 0, "val": 1, "pbf": 1}, "parse", "cfg")
    add({"o": "cfgset", "layers": 1, "txn": 0, "data": [["CFG_NOT_A_KEY", 1]]}, "cfg", "aborted")
    add({"o": "cfgset", "layers": 1, "txn": 0, "data": [[keys[0][0], "wrong-type"]]}, "cfg", "aborted")
    add({"o": "cfgpoll", "layer": 0, "pos": 0, "keys": list(range(0x10000000, 0x10000000 + 65))}, "cfg", "aborted")
    # live-message operations: a pool of message sources and mutation attempts on them
    def _parses(op):
        try:
            _make(op)
            return True
        except Exception:  # pylint: disable=broad-except
            return False

    aborted = set(fam["aborted"]) | set(fam["vals"])
    good = [i for i in fam["parse"] if i not in aborted and len(ops[i]["hex"]) > 16 and _parses(ops[i])]
    for i in good[:: max(1, len(good) // 48)][:48]:
        pool_src.append(ops[i])
    pool_src.append({"o": "cfgpoll", "layer": 0, "pos": 0, "keys": [keys[0][0]]})
    pool_src.append({"o": "cfgset", "layers": 1, "txn": 0, "data": [[keys[0][0], 1 if keys[0][1][1][0] in "UEL" else 0]]})
    pool_src.append({"o": "cfgdel", "layers": 2, "txn": 0, "keys": [keys[0][0], keys[1][0]]})
    pool_src.append({"o": "new", "cls": "CFG", "id": "CFG-MSG", "mode": 1, "kw": {"msgClass": 240, "msgID": 4, "rateUART1": 1}})
    names_private = ("_payload", "_immutable", "_checksum", "_ubxClass", "_ubxID", "_length", "_mode", "_parsebf")
    names_new = ("foo", "newAttr", "payload2", "__class__x", "__doc__", "__brand_new__", "__dict__", "__wrapped__", "__module__", "_", "__x")
    names_prop = ("identity", "payload", "length", "msg_cls", "msg_id", "msgmode")
    values = [0, 1, {"b": "00"}, "x", None, [1, 2], {"f": "1.5"}]
    for j, src in enumerate(pool_src):
        add({"o": "inspect", "pool": j, "msg": src}, "inspect")
        cand = list(names_private) + list(names_new) + list(names_prop) + ["<pub0>", "<pub1>", "<publast>"]
        for name in cand:
            add({"o": "set", "pool": j, "msg": src, "name": name, "value": values[(j + len(name)) % len(values)]}, "mutate")
            add({"o": "del", "pool": j, "msg": src, "name": name}, "mutate")
        for name in ("payload", "_payload", "_checksum", "_length", "length", "identity", "<pub0>", "<publast>"):
            add({"o": "iadd", "pool": j, "msg": src, "name": name}, "mutate")
    # probe basket for the predecessor sweep: a fixed, diverse set of operations whose results are compared
    # with their cold goldens after EVERY operation of the catalogue has run once before them
    parse_get = [i for i in fam["parse"] if ops[i]["mm"] == 0 and ops[i]["pbf"] == 1 and i not in aborted]
    parse_set = [i for i in fam["parse"] if ops[i]["mm"] in (1, 2) and ops[i]["pbf"] == 1 and i not in aborted]
    basket = (
        parse_get[:: max(1, len(parse_get) // 60)][:60]
        + parse_set[:: max(1, len(parse_set) // 12)][:12]
        + fam["tp5"][:1] + fam["cfg"][:3] + fam["read"][:: max(1, len(fam["read"]) // 3)][:3]
        + fam["new"][:: max(1, len(fam["new"]) // 6)][:6] + fam["inspect"][:2]
    )
    return {"ops": ops, "fam": fam, "pool": pool_src, "basket": sorted(set(basket))}


def _resolve_names(op, msg):
    """Replace <pub0>/<pub1>/<publast> placeholders by the message's public attribute names."""
    name = op.get("name")
    if name and name.startswith("<pub"):
        pub = [k for k in getattr(msg, "__dict__", {}) if not k.startswith("_")]
        if not pub:
            return dict(op, name="noPublicAttr")
        idx = {"<pub0>": 0, "<pub1>": min(1, len(pub) - 1), "<publast>": len(pub) - 1}[name]
        return dict(op, name=pub[idx])
    return op


# -------------------------------------------------------------------------------------------
# running a scenario in a pristine forked child
# -------------------------------------------------------------------------------------------


def in_child(fn, *args):
    """Run fn(*args) in a forked child and return its JSON-able result."""
    r, w = os.pipe()
    pid = os.fork()
    if pid == 0:
        code = 0
        try:
            os.close(r)
            try:
                import signal  # pylint: disable=import-outside-toplevel

                signal.alarm(CHILD_TIMEOUT_S)
                out = {"ok": fn(*args)}
            except BaseException as err:  # pylint: disable=broad-except
                out = {"harness_error": f"{type(err).__name__}: {err}\n{traceback.format_exc()[-1500:]}"}
            data = json.dumps(out).encode()
            with os.fdopen(w, "wb") as fh:
                fh.write(data)
        except BaseException:  # pylint: disable=broad-except
            code = 3
        finally:
            os._exit(code)  # pylint: disable=protected-access
    os.close(w)
    chunks = []
    with os.fdopen(r, "rb") as fh:
        while True:
            b = fh.read(1 << 16)
            if not b:
                break
            chunks.append(b)
    _, status = os.waitpid(pid, 0)
    if not chunks:
        raise core.HarnessError(f"C13 child died without a result (status {status})")
    out = json.loads(b"".join(chunks))
    if "harness_error" in out:
        raise core.HarnessError("C13 child: " + out["harness_error"])
    return out["ok"]


def _cold(op):
    """Child body: execute one op as the first library call; returns [result, written, tables_ok]."""
    led = Ledger()
    try:
        t0 = tables_digest()
        if op["o"] in ("set", "del", "inspect", "iadd"):
            try:
                msg = _make(op["msg"])
            except Exception as err:  # pylint: disable=broad-except
                msg = None
                res = ["exc", type(err).__name__, "source message could not be created: " + str(err)]
            if msg is not None:
                op2 = _resolve_names(op, msg)
                res = run_op(dict(op2, pool=0), pool=[msg])
        else:
            res = run_op(op)
        written = led.written()
        ok = tables_digest() == t0
    finally:
        led.close()
    return [res, written, ok]


def _cold_many(ops):
    """Child body: each op in its own grandchild (pristine per op)."""
    return [in_child(_cold, op) for op in ops]


def golden(op):
    k = key(op)
    if k not in _GOLD:
        res, written, ok = in_child(_cold, op)
        _GOLD[k] = res
        if written or not ok:
            _COLD_VIOLATIONS.append((op, written, ok))
    return _GOLD[k]


def prepare(tier):
    """Compute cold goldens for the whole catalogue (parallel, before the pool forks)."""
    if tier == "slice":
        return  # a 12-unit slice computes the goldens it needs on demand (golden())
    cat = build_catalogue()
    ops = cat["ops"]
    todo = [op for op in ops if key(op) not in _GOLD]
    if not todo:
        return
    nproc = int(os.environ.get("VERIF_NPROC", "16"))
    slices = [todo[i::nproc] for i in range(nproc)]
    # fork nproc children, each computing a slice op by op in grandchildren
    pipes = []
    for sl in slices:
        r, w = os.pipe()
        pid = os.fork()
        if pid == 0:
            try:
                os.close(r)
                try:
                    out = {"ok": _cold_many(sl)}
                except BaseException as err:  # pylint: disable=broad-except
                    out = {"harness_error": f"{type(err).__name__}: {err}"}
                with os.fdopen(w, "wb") as fh:
                    fh.write(json.dumps(out).encode())
            finally:
                os._exit(0)  # pylint: disable=protected-access
        os.close(w)
        pipes.append((pid, r, sl))
    for pid, r, sl in pipes:
        with os.fdopen(r, "rb") as fh:
            data = fh.read()
        os.waitpid(pid, 0)
        out = json.loads(data) if data else {"harness_error": "no data"}
        if "harness_error" in out:
            raise core.HarnessError("C13 golden computation: " + out["harness_error"])
        for op, (res, written, ok) in zip(sl, out["ok"]):
            _GOLD[key(op)] = res
            if written or not ok:
                _COLD_VIOLATIONS.append((op, written, ok))


# -------------------------------------------------------------------------------------------
# scenario execution (child body)
# -------------------------------------------------------------------------------------------


def _judge_result(op, res, gold, threaded):
    if res and res[0] == "MUTATED" and "msg" not in op:
        return ("live_message_changed", f"{key(op)[:160]}: {res[1]}")
    if res and res[0] == "MUTATED":
        return ("attribute_mutation_not_refused", f"{op['o']} {op.get('name')} on {key(op['msg'])[:120]}: {res[1]}")
    if res != gold:
        clause = "result_depends_on_interleaving" if threaded else "result_depends_on_history"
        return (clause, f"op {key(op)[:200]} gave {json.dumps(res)[:300]} but its cold golden is {json.dumps(gold)[:300]}")
    return None


def _exec_scenario(scn, goldens, sched_seed=None):
    """Child body. Returns {"verdict": [clause, detail]|None, "stats": {...}, "switches": [...]}."""
    led = Ledger()
    stats = core.Counters()
    verdict = None
    recorded = None
    try:
        t0 = tables_digest()
        pool = []
        for src in scn.get("pool", []):
            try:
                pool.append(_make(src))
            except Exception:  # pylint: disable=broad-except
                pool.append(None)
        snaps = [None if m is None else _snapshot(m) for m in pool]

        def do(op):
            if op["o"] in ("inspect", "set", "del", "iadd"):
                msg = pool[op["pool"]]
                if msg is None:
                    return None
                op = _resolve_names(op, msg)
                return run_op(op, pool)
            return run_op(op)

        if scn["mode"] == "history":
            check_tables_each = scn.get("tables_every_op", True)
            for i, op in enumerate(scn["ops"]):
                res = do(op)
                if res is None:
                    continue
                stats.hit("ops")
                if res[0] == "exc":
                    stats.hit("aborted_ops")
                if op["o"] in ("set", "iadd"):
                    stats.hit("setattr_attempts")
                if op["o"] == "del":
                    stats.hit("delattr_attempts")
                v = _judge_result(op, res, goldens[key(op)], False)
                if v is None and led.written():
                    v = ("writes_to_stdout_or_stderr", f"after op {i} {key(op)[:160]}: {led.written()[:200]!r}")
                if v is None and check_tables_each and tables_digest() != t0:
                    v = ("shared_tables_modified", f"table digest changed after op {i} {key(op)[:200]}")
                if v is not None:
                    verdict = v
                    break
        else:
            th = scn["threads"]
            results_bad = []

            def run_one(tid, idx, op):
                res = do(op)
                if res is None:
                    return None
                v = _judge_result(op, res, goldens[key(op)], True)
                if v is not None:
                    results_bad.append((tid, idx, v))
                elif led.written():
                    results_bad.append((tid, idx, ("writes_to_stdout_or_stderr", f"thread {tid} op {idx}: {led.written()[:200]!r}")))
                return res

            rng = core.stream(sched_seed, "sched") if (sched_seed is not None and "switches" not in th) else None
            results, baton = run_threads(
                th["ops"], run_one, policy=th.get("policy"), rng=rng, replay=th.get("switches"), granularity=th.get("granularity", "line")
            )
            recorded = baton.recorded
            stats.hit("thread_switches", len(recorded))
            stats.hit("lock_handoffs", baton.lock_yields)
            stats.hit("steps", baton.steps)
            for site, n in baton.sites.items():
                fnname = site.split(":")[1] if ":" in site else site
                if fnname.split("@")[0] in ("_set_attribute", "_set_attribute_single", "_set_attribute_group", "_set_attribute_bitfield", "_set_attribute_bits", "_do_attributes"):
                    stats.hit("switch_inside__set_attribute", n)
                stats.hit("site:" + site.split("@")[0])
            for rl in results:
                for r in rl:
                    if r is not None:
                        stats.hit("ops")
                        if r[0] == "exc":
                            stats.hit("aborted_ops")
            if baton.deadlock:
                verdict = ("threads_deadlock", f"after {baton.lock_yields} lock hand-offs no thread can proceed: a lock of the library is held by a thread that has finished or waits for it itself")
            elif baton.aborted:
                stats.hit("step_cap_reached")  # harness limit, not a verdict
            elif results_bad:
                verdict = results_bad[0][2]
        if verdict is None:
            for j, (m, s0) in enumerate(zip(pool, snaps)):
                if m is not None and _snapshot(m) != s0:
                    verdict = ("live_message_changed", f"pool message {j} ({key(scn['pool'][j])[:120]}) differs from its creation snapshot")
                    break
        if verdict is None and led.written():
            verdict = ("writes_to_stdout_or_stderr", f"{led.written()[:200]!r}")
        if verdict is None and tables_digest() != t0:
            verdict = ("shared_tables_modified", "table digest changed during the run")
    finally:
        led.close()
    return {"verdict": verdict, "stats": dict(stats), "switches": recorded}


def _scenario_ops(scn):
    if scn["mode"] in ("history", "cold"):
        return scn["ops"]
    return [op for tl in scn["threads"]["ops"] for op in tl]


def _goldens_for(scn):
    out = {}
    for op in _scenario_ops(scn):
        out[key(op)] = golden(op)
    return out


def run_scenario(scn, sched_seed=None):
    if scn["mode"] == "cold":
        res, written, ok = in_child(_cold, scn["ops"][0])
        if written:
            return {"verdict": ("writes_to_stdout_or_stderr", f"first call in a fresh process, op {key(scn['ops'][0])[:160]}: {written[:200]!r}"), "stats": {}, "switches": None}
        if not ok:
            return {"verdict": ("shared_tables_modified", f"first call in a fresh process, op {key(scn['ops'][0])[:200]}"), "stats": {}, "switches": None}
        if res and res[0] == "MUTATED":
            return {"verdict": ("attribute_mutation_not_refused", f"{key(scn['ops'][0])[:200]}: {res[1]}"), "stats": {}, "switches": None}
        return {"verdict": None, "stats": {}, "switches": None}
    gold = _goldens_for(scn)
    out = in_child(_exec_scenario, scn, gold, sched_seed)
    if out["verdict"] is not None:
        out["verdict"] = tuple(out["verdict"])
    return out


def execute(scn):
    return run_scenario(scn, scn.get("seed"))["verdict"]


# -------------------------------------------------------------------------------------------
# generation
# -------------------------------------------------------------------------------------------


_LIBFUNCS = None


def library_functions():
    """Names of the functions / methods defined in pyubx2 (static list, sorted: deterministic)."""
    global _LIBFUNCS  # pylint: disable=global-statement
    if _LIBFUNCS is None:
        import ast  # pylint: disable=import-outside-toplevel
        import glob  # pylint: disable=import-outside-toplevel

        names = set()
        for fn in sorted(glob.glob(os.path.join(core.REPO_SRC, "pyubx2", "*.py"))):
            if "ubxtypes_" in fn:
                continue
            with open(fn, encoding="utf-8") as fh:
                for node in ast.walk(ast.parse(fh.read())):
                    if isinstance(node, (ast.FunctionDef, ast.AsyncFunctionDef)):
                        names.add(node.name)
        _LIBFUNCS = sorted(names)
    return _LIBFUNCS


def _pick_ops(rng, cat, n, flavour):
    ops, fam = cat["ops"], cat["fam"]
    out = []
    anchor = rng.choice(fam["parse"])
    for _ in range(n):
        roll = rng.random()
        if flavour == "family" and roll < 0.6:
            # ops near one message family (neighbouring catalogue entries share class/id)
            i = min(max(anchor + rng.randrange(-6, 7), 0), len(ops) - 1)
        elif flavour == "aborted" and roll < 0.6:
            i = rng.choice(fam["aborted"])
        elif flavour == "variant" and roll < 0.6:
            i = rng.choice(fam["variant"] + fam["tp5"])
        elif flavour == "mutate" and roll < 0.5:
            i = rng.choice(fam["mutate"])
        elif flavour == "ref" and roll < 0.8:
            i = rng.choice(fam["ref"])
        elif flavour == "cfg" and roll < 0.7:
            i = rng.choice(fam["dupkey"]) if fam["dupkey"] and rng.random() < 0.3 else rng.choice(fam["cfg"])
        elif flavour == "arrays" and roll < 0.7 and fam["arrays"]:
            j = rng.randrange(len(fam["arrays"]))
            i = fam["arrays"][min(max(j + rng.randrange(-3, 4), 0), len(fam["arrays"]) - 1)]
        elif flavour == "eqv" and roll < 0.7:
            # neighbouring entries of the equal-but-different-values family belong to one message
            j = rng.randrange(len(fam["eqv"]))
            i = fam["eqv"][min(max(j + rng.randrange(-4, 5), 0), len(fam["eqv"]) - 1)]
        elif roll < 0.1:
            i = rng.choice(fam["cfg"])
        elif roll < 0.2:
            i = rng.choice(fam["mutate"] + fam["inspect"])
        elif roll < 0.3:
            i = rng.choice(fam["new"])
        elif roll < 0.36:
            i = rng.choice(fam["read"])
        else:
            i = rng.randrange(len(ops))
        out.append(ops[i])
    return out


SWEEP_K = 8  # catalogue operations per sweep scenario (followed by the probe basket)


def generate_sweep(j: int) -> dict:
    """Sweep scenario j: catalogue operations [8j, 8j+8) as predecessors, then the probe basket."""
    cat = build_catalogue()
    ops = cat["ops"][j * SWEEP_K : (j + 1) * SWEEP_K]
    return {"seed": j, "mode": "history", "ops": ops + [cat["ops"][i] for i in cat["basket"]], "pool": cat["pool"], "flavour": "sweep"}


def generate(seed: int, tier: str = "quick") -> dict:
    cat = build_catalogue()
    r_cfg = core.stream(seed, "config")
    r_ops = core.stream(seed, "threads")
    flavour = r_cfg.choice(("uniform", "uniform", "family", "family", "aborted", "variant", "variant", "mutate", "eqv", "arrays", "cfg", "ref"))
    if r_cfg.random() < 0.5:
        n = r_cfg.choice((5, 10, 20, 40, 80, 200))
        ops = _pick_ops(r_ops, cat, n, flavour)
        probes = [cat["ops"][i] for i in (cat["fam"]["tp5"][:1] + cat["fam"]["variant"][:: max(1, len(cat["fam"]["variant"]) // 12)][:12] + cat["fam"]["cfg"][:3])]
        return {"seed": seed, "mode": "history", "ops": ops + probes, "pool": cat["pool"], "flavour": flavour}
    nthreads = r_cfg.choice((2, 2, 3, 4))
    kind = r_cfg.choice(("random", "random", "pct", "focus", "focus"))
    style = r_cfg.random()
    if kind == "focus":
        style *= 0.55  # races need the same (few) operations on several threads: shared or repeated op lists
    if style < 0.3:
        # all threads hammer the same few operations (shared definitions, shared variant selectors)
        base = _pick_ops(r_ops, cat, r_cfg.choice((2, 3, 5)), flavour)
        op_lists = [list(base) for _ in range(nthreads)]
    elif style < 0.55:
        # each thread repeats its own small set of operations (the same value converted again and
        # again, as in consecutive messages of one navigation epoch), sets differ between threads
        op_lists = []
        for _ in range(nthreads):
            own = _pick_ops(r_ops, cat, r_cfg.choice((1, 2, 3)), flavour)
            seq = [r_ops.choice(own) for _ in range(r_cfg.choice((4, 6, 10)))]
            op_lists.append(seq)
    else:
        op_lists = [_pick_ops(r_ops, cat, r_cfg.choice((2, 4, 8, 16)), flavour) for _ in range(nthreads)]
    gran = "instruction" if r_cfg.random() < (0.25 if tier == "thorough" else 0.08) else "line"
    if kind == "random":
        policy = {"kind": "random", "p": r_cfg.choice((0.2, 0.05, 0.02, 0.005, 0.002))}
        if gran == "instruction":
            policy["p"] = policy["p"] / 5
    elif kind == "focus":
        # dense pre-emption inside ONE function of the library (drawn from all of them), sparse elsewhere:
        # over a batch every function gets runs in which each of its lines is a likely switch point
        policy = {"kind": "focus", "func": r_cfg.choice(library_functions()), "p_in": r_cfg.choice((0.3, 0.6)), "p": r_cfg.choice((0.0, 0.003))}
    else:
        policy = {"kind": "pct", "d": r_cfg.choice((1, 2, 3, 5)), "est": r_cfg.choice((300, 2000, 10000)) * (5 if gran == "instruction" else 1)}
    return {"seed": seed, "mode": "threads", "threads": {"ops": op_lists, "policy": policy, "granularity": gran}, "pool": cat["pool"], "flavour": flavour}


# -------------------------------------------------------------------------------------------
# minimisation
# -------------------------------------------------------------------------------------------


def shrink(scn, fails):
    import copy  # pylint: disable=import-outside-toplevel

    budget = minimise._Budget(250)  # pylint: disable=protected-access
    cur = copy.deepcopy(scn)
    if cur["mode"] == "history":
        def test(ops):
            c = dict(cur, ops=ops)
            return fails(c)

        cur["ops"] = minimise.ddmin_list(cur["ops"], test, budget)
    elif cur["mode"] == "threads":
        th = cur["threads"]
        # 1. fewer switches
        if th.get("switches"):
            def test_sw(sw):
                c = copy.deepcopy(cur)
                c["threads"]["switches"] = sw
                return fails(c)

            th["switches"] = minimise.ddmin_list(th["switches"], test_sw, budget)
        # 2. fewer ops per thread (switch positions are relative to ops: renumber)
        for t in range(len(th["ops"])):
            i = len(th["ops"][t]) - 1
            while i >= 0 and budget.take():
                c = copy.deepcopy(cur)
                del c["threads"]["ops"][t][i]
                sw = []
                for d in c["threads"].get("switches") or []:
                    if d["t"] == t:
                        if d["op"] == i:
                            continue
                        if d["op"] > i:
                            d = dict(d, op=d["op"] - 1)
                    sw.append(d)
                c["threads"]["switches"] = sw
                if fails(c):
                    cur = c
                    th = cur["threads"]
                i -= 1
    # smaller pool: keep only referenced messages
    used = sorted({op["pool"] for op in _scenario_ops(cur) if "pool" in op})
    if len(used) < len(cur.get("pool", [])):
        remap = {old: new for new, old in enumerate(used)}
        c = copy.deepcopy(cur)
        c["pool"] = [cur["pool"][i] for i in used]
        if c["mode"] == "history":
            c["ops"] = [dict(op, pool=remap[op["pool"]]) if "pool" in op else op for op in c["ops"]]
        else:
            c["threads"]["ops"] = [[dict(op, pool=remap[op["pool"]]) if "pool" in op else op for op in tl] for tl in c["threads"]["ops"]]
        if fails(c):
            cur = c
    return cur


# -------------------------------------------------------------------------------------------
# units
# -------------------------------------------------------------------------------------------


def run_unit(unit) -> UnitResult:
    res = UnitResult()
    if unit.get("cold"):
        # report what the golden computation itself saw (side effects of a single first call)
        for op, written, ok in sorted(_COLD_VIOLATIONS, key=lambda t: key(t[0]))[:3]:
            scn = {"seed": 0, "mode": "cold", "ops": [op]}
            v = run_scenario(scn)["verdict"]
            if v is not None:
                scn["clause"], scn["detail"] = v
                res.violations.append(scn)
        cat = build_catalogue()
        res.runs = len(cat["ops"])
        res.evaluations = len(cat["ops"])
        res.counters.hit("cold_goldens", len(cat["ops"]))
        for name, idxs in cat["fam"].items():
            res.counters.hit("catalogue_" + name, len(idxs))
        for op in cat["ops"]:
            g = _GOLD.get(key(op))
            if op["o"] in ("set", "del") and g and g[0] == "MUTATED" and len(res.violations) < 4:
                scn = {"seed": 0, "mode": "cold", "ops": [op], "clause": "attribute_mutation_not_refused", "detail": g[1]}
                res.violations.append(scn)
        return res
    if "sweep" in unit:
        seed = unit["sweep"]
        scn = generate_sweep(seed)
        res.counters.hit("sweep_runs")
    else:
        seed = unit["seed"]
        scn = generate(seed, unit.get("tier", "quick"))
    res.runs = 1
    out = run_scenario(scn, seed)
    res.evaluations += 1
    st = out["stats"]
    c = res.counters
    for k, v in st.items():
        if k.startswith("site:"):
            res.extra.setdefault("switch_sites", core.Counters()).hit(k[5:], v)
        else:
            c.hit(k, v)
    ops = _scenario_ops(scn)
    c.hit("history_runs" if scn["mode"] == "history" else "thread_runs")
    c.hit("cfgtp5_poll_ops", sum(1 for op in ops if op.get("o") == "parse" and op["hex"][4:8] == "0631" and op["mm"] == 2))
    c.hit("config_ops", sum(1 for op in ops if op["o"].startswith("cfg")))
    c.hit("construct_ops", sum(1 for op in ops if op["o"] == "new"))
    c.hit("read_ops", sum(1 for op in ops if op["o"] == "read"))
    if scn["mode"] == "threads":
        c.hit("granularity_" + scn["threads"]["granularity"])
        c.hit("fault_preemption", len(out["switches"] or ()))
        nontrivial = len(out["switches"] or ()) >= 2
        res.log(([key(o) for tl in scn["threads"]["ops"] for o in tl], out["switches"]), nontrivial)
    else:
        nontrivial = st.get("aborted_ops", 0) > 0 or st.get("setattr_attempts", 0) + st.get("delattr_attempts", 0) > 0
        c.hit("fault_aborted_operation", st.get("aborted_ops", 0))
        res.log([key(o) for o in scn["ops"]], nontrivial)
    if seed % 503 == 0:
        s = {"seed": seed, "mode": scn["mode"], "flavour": scn["flavour"]}
        if scn["mode"] == "history":
            s["ops"] = scn["ops"][:4] + ["..."]
            s["n_ops"] = len(scn["ops"])
        else:
            s["threads"] = {"n_ops": [len(t) for t in scn["threads"]["ops"]], "first_ops": [t[:1] for t in scn["threads"]["ops"]], "policy": scn["threads"]["policy"], "granularity": scn["threads"]["granularity"], "switches": (out["switches"] or [])[:6]}
        res.samples.append(s)
    if out["verdict"] is not None:
        bad = dict(scn)
        if scn["mode"] == "threads":
            bad["threads"] = dict(scn["threads"], switches=out["switches"])
        bad["clause"], bad["detail"] = out["verdict"]
        res.violations.append(bad)
    return res


def batches(tier, base_seed):
    if tier == "selftest":
        prepare(tier)
    yield [{"cold": True}]
    if tier != "selftest":
        # predecessor sweep: every operation of the catalogue once in front of the probe basket
        n_sweep = -(-len(build_catalogue()["ops"]) // SWEEP_K)
        for a in range(0, n_sweep, 40):
            yield [{"sweep": j, "tier": tier} for j in range(a, min(a + 40, n_sweep))]
    for b in common.seed_batches(tier, base_seed, QUICK_RUNS, batch=40):
        yield [dict(u, tier=tier) for u in b]


def finish_evidence(ev, total, tier):
    sites = total.extra.get("switch_sites", {})
    ev["coverage"]["distinct_switch_sites"] = len(sites)
    ev["coverage"]["switch_sites_top"] = dict(sorted(sites.items(), key=lambda kv: -kv[1])[:15])
    ev["coverage"].pop("switch_sites", None)
    ev["coverage"]["distinct_interleavings"] = ev["coverage"]["distinct_event_logs"]
    ev["coverage"]["catalogue_ops"] = len(build_catalogue()["ops"])
