"""
C06 - the stream reader delivers every well-formed frame, in order, typed by protocol.

Simulated world: receiver (UBX+NMEA) and caster (RTCM3) -> mux -> link (drop / duplicate /
reorder / safe noise / boundary-preserving corruption) -> SimFile or SimSocket -> real reader.
Oracle: constructive - for each frame on the post-fault wire, what the protocol's own static
parser returns for the frame bytes under the reader's options.
"""

from checks import common
from sim import core, link, sched
from sim.observe import run_reader
from sim.runner import UnitResult

PROPERTY = "C06"
LEVEL = "exploration"
RULE = (
    "seeded histories of 0-12 frames from three simulated sources, rewritten by frame-level link "
    "faults (drop/duplicate/reorder), safe noise and boundary-preserving corruption, delivered "
    "through SimFile or SimSocket with a seeded arrival schedule; a run is non-trivial when at "
    "least one fault fired and at least one frame was delivered or rejected; distinct = distinct "
    "SHA-256 of (config, transport call ledger, delivered items)"
)
ASSUMPTIONS = common.BASE_ASSUMPTIONS + [
    "expected output is what UBXReader.parse / NMEAReader.parse / RTCMReader.parse return for the "
    "frame bytes with the reader's options (the property's own wording)",
]
REAL_VS_STUB = common.REAL_VS_STUB
QUICK_RUNS = 56000
GIANT_EVERY = 307  # one scenario in 307 carries a frame with a payload of 32 KiB or more
LONG_RUN_EVERY = 211  # one scenario in 211 starts with >= 1100 tiny frames (accepted or rejected) of one or two kinds
EXPECTED_PROBES = {
    "quick": ["pair:rtcm_empty>ubx_ok", "pair:rtcm_rej>nmea_ok", "pair:ubx_rej>ubx_ok", "pair:noise>ubx_ok", "socket_runs"],
    "thorough": ["pair:rtcm_empty>ubx_ok", "pair:rtcm_rej>nmea_ok", "pair:ubx_rej>ubx_ok", "pair:noise>ubx_ok", "socket_runs"],
}


def generate(seed: int, tier: str = "quick") -> dict:
    r_cfg = core.stream(seed, "config")
    r_dev = core.stream(seed, "device")
    r_lnk = core.stream(seed, "link")
    r_sch = core.stream(seed, "sched")
    cfg = common.draw_config(r_cfg, policies=(0, 1, 1, 2))
    if cfg["quitonerror"] == 2:
        cfg["resume_after_raise"] = True
    pre = core.Counters()
    nmax = 12
    n = r_cfg.choice((0, 1, 2, 3, 4, 5, 6, 8, nmax))
    mixes = (
        None,
        {"ubx": 1, "ubxc": 6, "nmea": 3, "rtcm": 3},
        {"ubx": 6, "ubxc": 1, "nmea": 1, "rtcm": 1},
        {"ubx": 0, "ubxc": 2, "nmea": 1, "rtcm": 6},
        {"ubx": 1, "ubxc": 1, "nmea": 6, "rtcm": 1},
    )
    variant = r_cfg.random() < 0.25  # checksum-valid frames with payloads shorter / longer than defined
    frames = common.gen_frames(r_dev, n, cfg, mix=r_cfg.choice(mixes), variant_fault=variant)
    if variant:
        pre.hit("fault_firmware_variant")
    if seed % LONG_RUN_EVERY == LONG_RUN_EVERY - 1:
        run, style = common.long_run_frames(r_dev, pre)
        if style not in ("unknown_hdr", "noise"):  # those contain frame-start bytes / are not frames
            frames = run + frames[:3]
    if seed % GIANT_EVERY == GIANT_EVERY - 1:
        # a frame in the upper half of the 16-bit length range between ordinary ones
        nbig = r_cfg.choice((0x8000, 0x8001, 0xC000, 0xFFFE, 0xFFFF, 0x7FFF, 40000))
        from sim import device, wire as W  # pylint: disable=import-outside-toplevel

        big = W.ubx_frame(r_cfg.choice((0x02, 0x66)), r_cfg.choice((0x13, 0x77)), device.payload_bytes(r_dev, nbig, "zeros"))
        frames = frames[:3]
        frames.insert(r_cfg.randrange(len(frames) + 1), {"kind": "ubx", "hex": big.hex(), "faults": [], "note": f"giant ubx frame payload {nbig}"})
        pre.hit("giant_frame_wires")
    frames = common.frame_level_faults(r_lnk, frames, pre)
    common.corrupt_preserving(r_lnk, frames, pre, p=r_cfg.choice((0.0, 0.1, 0.3)))
    frames = common.add_noise(r_lnk, frames, pre, p=r_cfg.choice((0.0, 0.15, 0.4)))
    spans = sched.spans_of(frames)
    wire_len = spans[-1][1] if spans else 0
    tr = common.draw_transport(r_sch, wire_len, spans)
    if tr["kind"] == "socket":
        cfg["bufsize"] = r_sch.choice(sched.BUFSIZES)
        if wire_len > 30000:
            cfg["bufsize"] = r_sch.choice((64, 1024, 4096, 65536))
            if len(tr.get("segments") or ()) > 300:
                sizes = sched.random_segments(r_sch, wire_len, spans, style="few")
                tr["segments"] = sched.timed_segments(r_sch, sizes, tr.get("timeout"))
        if r_sch.random() < 0.12:
            tr["kind"] = "tlssocket"
        if r_sch.random() < 0.3:
            cfg["writes"] = sorted({r_sch.randrange(1, 8) for _ in range(r_sch.randrange(1, 4))})  # the application sends polls between reads
    elif r_sch.random() < 0.2:
        tr = {"kind": "bytesio"}
    elif r_sch.random() < 0.06:
        tr = {"kind": "pipe"}
    elif r_sch.random() < 0.12:
        # a serial port that has everything buffered already (pyserial API: read / readline / read_until)
        tr = {"kind": "serial", "segments": [[0.0, wire_len]] if wire_len else [], "timeout": 1.0}
    if r_cfg.random() < 0.4:
        # a second reader with other options is alive (built after this one) while this one is read
        cfg["decoy"] = True
        cfg["decoy_policy"] = r_cfg.choice((0, 1, 2))
        cfg["decoy_msgmode"] = r_cfg.choice((0, 1, 2, 3))
        cfg["decoy_validate"] = r_cfg.choice((0, 1, 3))
        cfg["decoy_parsebitfield"] = r_cfg.choice((0, 1))
        cfg["decoy_labelmsm"] = r_cfg.choice((1, 2))
        cfg["decoy_protfilter"] = r_cfg.choice((7, 1, 2, 4, 0))
        cfg["decoy_parsing"] = r_cfg.choice((True, False))
    return {"seed": seed, "config": cfg, "frames": frames, "transport": tr, "pre_faults": dict(pre)}


def _expected(frames, cfg):
    """[(raw, canon)] expected by construction, statuses per frame, or None if base failed."""
    exp, status = [], []
    for f in frames:
        data = link.frame_bytes(f)
        kind = f["kind"]
        if kind == "noise":
            status.append("noise")
            continue
        res = common.static_parse(kind, data, cfg)
        if res[0] == "foreign":
            return None, None, res[1]
        if res[0] == "ok":
            exp.append((data, res[1]))
            if kind == "nmea" and res[1] is None:
                status.append("nmea_none")
            else:
                status.append(kind + "_ok")
        else:
            if kind == "rtcm" and len(data) == 6:
                status.append("rtcm_empty")
            else:
                status.append(kind + "_rej")
    return exp, status, None


def _run(scn, res=None):
    cfg = scn["config"]
    frames = scn["frames"]
    wire = link.wire_of(frames)
    exp, status, foreign = _expected(frames, cfg)
    if exp is None:
        if res is not None:
            res.skipped_base_failed += 1
        return None
    out = run_reader(wire, cfg, scn["transport"])
    if res is not None:
        res.evaluations += 1
        res.sim_seconds += out.transport.sim_seconds
        c = res.counters
        for k, v in (scn.get("pre_faults") or {}).items():
            c.hit(k, v)
        link.count_fired(frames, c)
        prev = "start"
        for st in status:
            c.hit(f"pair:{prev}>{st}")
            prev = st
        c.hit(f"pair:{prev}>end")
        c.hit("transport_" + scn["transport"]["kind"])
        if cfg.get("decoy"):
            c.hit("decoy_reader_alive")
        if scn["transport"]["kind"] in ("socket", "tlssocket"):
            c.hit("socket_runs")
            c.hit(f"socket_end_{scn['transport'].get('end')}")
            spans = sched.spans_of(frames)
            off = 0
            for _, nbytes in scn["transport"].get("segments") or ():
                off += nbytes
                if off < len(wire):
                    c.hit("chunk_boundary_" + sched.pos_class(spans, off))
        else:
            c.hit("file_runs")
        c.hit(f"msgmode_{cfg['msgmode']}")
        fired = any(k.startswith("fault_") for k in (scn.get("pre_faults") or {})) or any(f.get("faults") for f in frames)
        nontrivial = fired and any(s != "noise" for s in status)
        res.log((sorted(cfg.items()), out.transport.ledger, out.items, out.exc), nontrivial)
    if out.hang:
        return ("hang", out.hang)
    if out.exc:
        return ("exception_escaped", f"{out.exc}")
    if out.handler_bad:
        return ("handler_called_with_non_exception", out.handler_bad[0])
    got = out.items
    if len(got) != len(exp):
        return (
            "missing_or_extra_item",
            f"expected {len(exp)} items, got {len(got)}; expected raws={[r.hex() for r, _ in exp][:6]} got={[r.hex() for r, _ in got][:6]}",
        )
    for i, ((er, ep), (gr, gp)) in enumerate(zip(exp, got)):
        if er != gr:
            return ("raw_mismatch", f"item {i}: expected raw {er.hex()} got {gr.hex()}")
        if ep != gp:
            return ("parsed_mismatch", f"item {i}: expected {ep} got {gp}")
    if out.transport.handed_out != len(wire):
        return ("not_fully_consumed", f"iteration ended with {len(wire) - out.transport.handed_out} bytes unread")
    return None


def execute(scn):
    return _run(scn)


def run_unit(unit) -> UnitResult:
    res = UnitResult()
    scn = generate(unit["seed"], unit.get("tier", "quick"))
    res.runs = 1
    v = _run(scn, res)
    if unit["seed"] % 5000 == 0 or (len(scn["frames"]) >= 3 and unit["seed"] % 997 == 0):
        res.samples.append(common.sample_of(scn))
    if v is not None:
        bad = dict(scn)
        bad["clause"], bad["detail"] = v
        res.violations.append(bad)
    return res


def batches(tier, base_seed):
    return common.seed_batches(tier, base_seed, QUICK_RUNS)
