"""
C09 - a stream cut at any byte yields a prefix of the uncut stream's output.

Crash-point enumeration: for each sampled wire S the link is dropped after k bytes for EVERY
k in [0, len(S)] (thorough: long wires get biased samples of k), on three transports:
SimFile(S[:k]), SimSocket whose peer closes after k bytes, SimSocket that goes silent after k
bytes.  Oracle: relational against the uncut run on the same transport kind (prefix of items,
no exception, no hang, every delivered raw lies inside S[:k]) plus, for clean concatenations,
every item of the uncut run that ends at or before k is delivered.
"""

import copy

from checks import common
from sim import core, link, minimise, sched
from sim.observe import embed_offsets, is_prefix, run_reader
from sim.runner import UnitResult

PROPERTY = "C09"
LEVEL = "fault_enumeration"
RULE = (
    "per sampled wire (clean concatenations of generated frames; garbage / mutated / truncated / nested "
    "mixtures), the data source dies after k bytes for every k in 0..len (all cut points when len <= "
    "400, else a biased sample) x {file EOF, socket peer close, socket silence+timeout} x seeded reader "
    "configuration (quitonerror in {IGNORE, LOG}, validate in {VALCKSUM, VALNONE}, msgmode, protfilter, "
    "parsing); non-trivial = cut run in which the uncut run delivers at least one item and the cut "
    "falls strictly inside the wire; distinct = distinct SHA-256 of (config, wire, k, transport kind)"
)
ASSUMPTIONS = common.BASE_ASSUMPTIONS + [
    "the uncut reference run is executed on the same transport kind; if it raises or overruns its step budget the wire is skipped (C08's business)",
]
REAL_VS_STUB = common.REAL_VS_STUB
QUICK_RUNS = 2200
FULL_ENUM_MAX = 400
O_SLICE_UNITS = 30
COST_CAP = 8_000_000  # bound on loop iterations per wire over all cut runs
LONG_WIRE_BYTES = 600_000  # bound on wire length x number of cut points per wire
HEAVY_WIRE = 30_000  # loop iterations of one uncut run above which the cut points are thinned out
EXPECTED_PROBES = {
    "quick": ["cut_frame_boundary", "cut_ubx_length", "cut_ubx_checksum", "cut_nmea_crlf", "cut_rtcm_crc", "cut_rtcm_hdr", "clean_wires", "dirty_wires", "validate_0", "big_frame_wires"],
    "thorough": ["cut_frame_boundary", "cut_ubx_length", "cut_ubx_checksum", "cut_nmea_crlf", "cut_rtcm_crc", "clean_wires", "dirty_wires", "validate_0", "sampled_long_wires"],
}
VARIANTS = ("file", "close", "timeout", "pipe", "bytesio", "oserror")
OSERROR_ENDS = ("reset", "ebadf", "ehostunreach", "enotconn")

LONG_RUN_EVERY = 199  # one wire in 401 starts with about 1100 tiny frames (accepted or rejected)

def generate(seed: int, tier: str = "quick") -> dict:
    r_cfg = core.stream(seed, "config")
    r_dev = core.stream(seed, "device")
    r_lnk = core.stream(seed, "link")
    r_sch = core.stream(seed, "sched")
    cfg = common.draw_config_any(r_cfg, policies=(0, 1))
    cfg["validate"] = r_cfg.choice((1, 0))
    pre = core.Counters()
    clean = r_cfg.random() < 0.5
    long_wire = tier != "quick" and r_cfg.random() < 0.15
    n = r_cfg.choice((1, 2, 3, 4, 5)) if not long_wire else r_cfg.choice((8, 12, 16))
    if clean:
        mix = r_cfg.choice((None, {"ubx": 1, "ubxc": 5, "nmea": 3, "rtcm": 3}))
        frames = common.gen_frames(r_dev, n, cfg, mix=mix)
    else:
        frames = common.gen_mixed_frames(r_dev, r_lnk, n, cfg, pre)
    big = r_cfg.random() < 0.04
    if big:
        # one frame far larger than any plausible internal block (4 KiB) in front of / between the others
        from sim import device, wire as W  # pylint: disable=import-outside-toplevel

        nbig = r_cfg.choice((4090, 4094, 4096, 4100, 8190, 9000, 12288)) if r_cfg.random() < 0.5 else min(device.block_length(r_dev), 20000)
        if r_cfg.random() < 0.7:
            data = W.ubx_frame(r_cfg.choice((0x02, 0x0A, 0x66)), r_cfg.choice((0x13, 0x04, 0x77)), device.payload_bytes(r_dev, nbig, "random"))
            kind = "ubx"
        else:
            data = W.rtcm_frame(device.payload_bytes(r_dev, min(nbig, 1023), "random"))
            kind = "rtcm"
        frames = frames[:2]
        frames.insert(r_cfg.randrange(len(frames) + 1), {"kind": kind, "hex": data.hex(), "faults": [], "note": f"big {kind} frame {len(data)} bytes"})
        long_wire = True
        cfg["bufsize_floor"] = 64  # a 12 KiB frame through a 1-byte receive buffer costs minutes, and shows nothing new
        pre.hit("big_frame_wires")
    if not clean and r_cfg.random() < 0.08:
        from sim import device  # pylint: disable=import-outside-toplevel

        qd, qnote = device.nmea_quoted_in_rejection(r_dev)
        frames.insert(r_cfg.randrange(len(frames) + 1), {"kind": "nmea", "hex": qd.hex(), "faults": [], "note": qnote})
        pre.hit("rejection_text_quotes_utf8")
    if seed % LONG_RUN_EVERY == LONG_RUN_EVERY - 1:
        # about 1100 tiny frames of one or two kinds (accepted or rejected) in front of the others
        from sim import device  # pylint: disable=import-outside-toplevel

        run, style = device.long_run(r_dev, n=1100, styles=("bad_ubx", "bad_nmea", "rtcm_bad", "bad_ubx", "bad_nmea", "alternate", "ubx", "nmea", "unknown_hdr"))
        frames = [{"kind": k, "hex": b.hex(), "faults": [], "note": note} for k, b, note in run] + frames[:2]
        clean = clean and style in ("nmea", "ubx")
        if style.startswith("bad") or style == "rtcm_bad":
            # the point of these wires is the rejection path: the frames must reach their parser
            cfg["parsing"], cfg["protfilter"], cfg["validate"] = True, 7, 1
        long_wire = True
        cfg["bufsize_floor"] = 64
        pre.hit("long_run_wires")
        pre.hit("long_run:" + style)
    # keep full enumeration affordable: drop trailing frames until the wire is <= 400 bytes
    if not long_wire:
        while len(frames) > 1 and len(link.wire_of(frames)) > FULL_ENUM_MAX:
            frames.pop()
    spans = sched.spans_of(frames)
    wire_len = spans[-1][1] if spans else 0
    sizes = sched.random_segments(r_sch, wire_len, spans)
    tr = {
        "kind": "socket",
        "segments": sched.timed_segments(r_sch, sizes, 2.0),
        "timeout": 2.0,
        "host_delay": r_sch.choice((0.0, 0.001)),
    }
    cfg["bufsize"] = r_sch.choice(sched.BUFSIZES)
    if r_sch.random() < 0.2:
        cfg["writes"] = sorted({r_sch.randrange(1, 5) for _ in range(r_sch.randrange(1, 3))})  # polls sent between reads (socket transports)
    if r_sch.random() < 0.2:
        cfg["handler"] = False  # ERR_LOG reports go to the logger
    if cfg.pop("bufsize_floor", None):
        cfg["bufsize"] = r_sch.choice((64, 1024, 4096))
    if wire_len <= FULL_ENUM_MAX:
        cuts = None  # all
    else:
        cand = sched.interesting_offsets(spans)
        blocks = set()
        for start, end, _ in spans:
            if end - start > 1024:  # block-size multiples inside large frames (relative to frame, header, payload)
                for base in (start, start + 2, start + 6):
                    for mult in range(1, (end - base) // 1024 + 1):
                        for d in (-1, 0, 1):
                            blocks.add(min(max(base + 1024 * mult + d, 0), wire_len))
        cuts = sorted({r_sch.choice(cand) for _ in range(150)} | {r_sch.randrange(wire_len + 1) for _ in range(50)} | {0, wire_len} | blocks)
    return {"seed": seed, "config": cfg, "frames": frames, "socket": tr, "clean": clean, "cuts": cuts, "pre_faults": dict(pre)}


def _transport(scn, variant, cut):
    if variant == "file":
        return {"kind": "file", "cut": cut}
    if variant == "pipe":
        return {"kind": "pipe", "cut": cut}
    if variant == "bytesio":
        return {"kind": "bytesio", "cut": cut}
    tr = dict(scn["socket"])
    tr["end"] = variant if variant != "oserror" else OSERROR_ENDS[(cut or 0) % len(OSERROR_ENDS)]
    tr["cut"] = cut
    return tr


def deliverable_ends(scn):
    """End offsets of the frames of a clean wire that the reader's configuration makes deliverable."""
    from sim import wire as W  # pylint: disable=import-outside-toplevel

    cfg = scn["config"]
    ends, off = [], 0
    for f in scn["frames"]:
        data = link.frame_bytes(f)
        off += len(data)
        if not W.PROTO_BIT.get(f["kind"], 0) & cfg.get("protfilter", 7):
            continue
        if cfg.get("parsing", True):
            verdict = common.static_parse(f["kind"], data, cfg)
            if verdict[0] == "foreign":
                return None
            if verdict[0] != "ok":
                continue
        ends.append(off)
    return ends


def _base(scn, wire, variant):
    out = run_reader(wire, scn["config"], _transport(scn, variant, None))
    if out.exc and not out.hang and out.exc[0] in common.proto_error_names():
        # k = len(S) is a cut position too: a *protocol* error escaping with errors ignored or logged is
        # this property's business ("ends without raising"); a foreign class is C08's and skipped
        return ("PROTO_RAISED", out.exc)
    if out.exc and not out.hang:
        # "ends without raising" holds for k = len(S) as for every other k, whatever the class: the clause
        # carries class and origin so that a listed finding (known_findings.json) is told from a new one
        return ("FOREIGN_RAISED", out.exc, out.exc_where)
    if out.hang:
        return None
    offs = embed_offsets(wire, out.raws())
    ends = [o + len(r) for o, r in zip(offs, out.raws())] if offs is not None else None
    return out.items, ends


def _judge_cut(scn, wire, variant, k, base_items, base_ends, res=None):
    out = run_reader(wire, scn["config"], _transport(scn, variant, k))
    if res is not None:
        res.sim_seconds += out.transport.sim_seconds
    if out.hang:
        return ("cut_run_hangs", f"k={k} {variant}: {out.hang}")
    if out.exc:
        return ("cut_run_raises", f"k={k} {variant}: {out.exc}")
    if not is_prefix(out.items, base_items):
        return (
            "cut_items_not_prefix",
            f"k={k} {variant}: cut run delivered {[r.hex() for r, _ in out.items][-3:]} (n={len(out.items)}), uncut run delivers {[r.hex() for r, _ in base_items][:len(out.items) + 1][-3:]}",
        )
    if embed_offsets(wire[:k], out.raws()) is None:
        return ("raw_outside_cut", f"k={k} {variant}: a delivered raw does not lie inside S[:k]")
    if scn.get("clean") and scn.get("deliverable_ends") is not None:
        # frame boundaries are known by construction: every frame that lies wholly before the cut, passes
        # the mask and (when parsing) is accepted by its own protocol parser must have been delivered
        need = sum(1 for e in scn["deliverable_ends"] if e <= k)
        if len(out.items) < need:
            return (
                "complete_frame_before_cut_not_delivered",
                f"k={k} {variant}: {need} deliverable frames lie wholly before the cut, only {len(out.items)} items delivered",
            )
    elif scn.get("clean") and base_ends is not None:
        need = sum(1 for e in base_ends if e <= k)
        if len(out.items) < need:
            return (
                "complete_frame_before_cut_not_delivered",
                f"k={k} {variant}: {need} items end at or before the cut, only {len(out.items)} delivered",
            )
    return None


def execute(scn):
    """Replay form: scn["cut"] = k and scn["variant"] name the failing crash point."""
    wire = link.wire_of(scn["frames"])
    variant = scn.get("variant", "file")
    base = _base(scn, wire, variant)
    if base is None:
        return None
    if base[0] == "PROTO_RAISED":
        return ("cut_run_raises", f"k={len(wire)} (uncut) {variant}: {base[1]}")
    if base[0] == "FOREIGN_RAISED":
        return (f"uncut_run_raises|{base[1][0].rsplit(".", 1)[-1]}@{base[2]}", f"k={len(wire)} (uncut) {variant}: {base[1]}")
    if scn.get("clean") and "deliverable_ends" not in scn:
        scn = dict(scn, deliverable_ends=deliverable_ends(scn))
    ks = [scn["cut"]] if scn.get("cut") is not None else range(len(wire) + 1)
    for k in ks:
        if k > len(wire):
            continue
        v = _judge_cut(scn, wire, variant, k, *base)
        if v is not None:
            return v
    return None


def shrink(scn, fails):
    """Generic shrink with the cut point re-searched after every structural change (bounded effort)."""
    clause = scn["clause"]
    wire0 = link.wire_of(scn["frames"])
    if len(wire0) > 1500:
        return scn  # cutting a 12 KiB wire at every byte for every candidate costs minutes: report as found

    def cut_candidates(cand):
        w = link.wire_of(cand["frames"])
        if len(w) <= 160:
            return range(len(w) + 1)
        pts = set(sched.interesting_offsets(sched.spans_of(cand["frames"])))
        pts.update(range(0, len(w) + 1, max(1, len(w) // 40)))
        return sorted(p for p in pts if 0 <= p <= len(w))

    def fails_any_k(cand):
        base = dict(cand)
        for k in cut_candidates(cand):
            base["cut"] = k
            v = execute(base)
            if v is not None and v[0] == clause:
                return True
        return False

    small = minimise.shrink_generic(scn, fails_any_k, max_tests=60)
    for k in cut_candidates(small):
        c = copy.deepcopy(small)
        c["cut"] = k
        if fails(c):
            return c
    return scn


def run_unit(unit) -> UnitResult:
    res = UnitResult()
    scn = generate(unit["seed"], unit.get("tier", "quick"))
    res.runs = 1
    cfg = scn["config"]
    wire = link.wire_of(scn["frames"])
    spans = sched.spans_of(scn["frames"])
    c = res.counters
    for k, v in (scn.get("pre_faults") or {}).items():
        c.hit(k, v)
    link.count_fired(scn["frames"], c)
    c.hit("clean_wires" if scn["clean"] else "dirty_wires")
    c.hit(f"validate_{cfg['validate']}")
    if scn["cuts"] is not None:
        c.hit("sampled_long_wires")
    if scn["clean"]:
        scn["deliverable_ends"] = deliverable_ends(scn)
    cuts = scn["cuts"] if scn["cuts"] is not None else range(len(wire) + 1)
    # a wire whose frames are expensive to parse (group counts of 65535) is cut at a thinned-out set of
    # points: every structurally interesting offset plus every stride-th byte; the cost is measured in
    # loop iterations of one uncut run, so the choice is deterministic
    from sim.meter import StepMeter  # pylint: disable=import-outside-toplevel

    with StepMeter(10**9) as meter:
        run_reader(wire, cfg, {"kind": "file"})
    cuts = list(cuts)
    if meter.used > HEAVY_WIRE:
        stride = 1 + meter.used // HEAVY_WIRE
        keep = set(sched.interesting_offsets(spans))
        cuts = [k for k in cuts if k in keep or k % stride == 0 or k == len(wire)]
        c.hit("heavy_wires_thinned")
    if meter.used * len(cuts) * len(VARIANTS) > COST_CAP:
        # frames that cost a second to parse (group counts of 65 535): a handful of cut points only
        n_keep = max(4, COST_CAP // (meter.used * len(VARIANTS)))
        step = max(1, len(cuts) // n_keep)
        cuts = cuts[::step] + [len(wire)]
        c.hit("costly_wires_thinned")
    if len(wire) * len(cuts) > LONG_WIRE_BYTES:
        # long wires (runaway lines, 12 KiB frames) through a byte-at-a-time socket wrapper: keep every
        # n-th sampled cut so that bytes-read x cuts stays bounded; offsets around the large frame's
        # 1 KiB multiples come first in the list of interesting points and survive
        n_keep = max(24, LONG_WIRE_BYTES // max(len(wire), 1))
        step = max(1, len(cuts) // n_keep)
        cuts = cuts[::step] + [len(wire)]
        c.hit("long_wires_thinned")
    found = False
    for variant in VARIANTS:
        base = _base(scn, wire, variant)
        res.evaluations += 1
        if base is None:
            res.skipped_base_failed += 1
            continue
        if base[0] == "PROTO_RAISED":
            if not found:
                found = True
                bad = {key: scn[key] for key in ("seed", "config", "frames", "socket", "clean")}
                bad["variant"], bad["cut"] = variant, len(wire)
                bad["clause"], bad["detail"] = "cut_run_raises", f"k={len(wire)} (uncut) {variant}: {base[1]}"
                res.violations.append(bad)
            continue
        if base[0] == "FOREIGN_RAISED":
            res.skipped_base_failed += 1  # no reference to compare the cut runs with
            if not found:
                found = True
                bad = {key: scn[key] for key in ("seed", "config", "frames", "socket", "clean")}
                bad["variant"], bad["cut"] = variant, len(wire)
                bad["clause"], bad["detail"] = f"uncut_run_raises|{base[1][0].rsplit(".", 1)[-1]}@{base[2]}", f"k={len(wire)} (uncut) {variant}: {base[1]}"
                res.violations.append(bad)
            continue
        for k in cuts:
            v = _judge_cut(scn, wire, variant, k, *base, res=res)
            res.evaluations += 1
            c.hit("fault_cut_" + variant)
            if variant == "file":
                c.hit("cut_" + sched.pos_class(spans, k).replace("in_", ""))
            res.log((sorted(cfg.items()), wire, k, variant), bool(base[0]) and 0 < k < len(wire))
            if v is not None and not found:
                found = True
                bad = {key: scn[key] for key in ("seed", "config", "frames", "socket", "clean")}  # deliverable_ends is re-derived at replay
                bad["variant"], bad["cut"] = variant, k
                bad["clause"], bad["detail"] = v
                res.violations.append(bad)
    if unit["seed"] % 401 == 0:
        s = common.sample_of(scn)
        s["cuts"] = "all" if scn["cuts"] is None else f"{len(scn['cuts'])} sampled"
        res.samples.append(s)
    return res


def batches(tier, base_seed):
    for b in common.seed_batches(tier, base_seed, QUICK_RUNS, batch=20):
        yield [dict(u, tier=tier) for u in b]


def finish_evidence(ev, total, tier):
    ev["coverage"]["exhaustive"] = False
    ev["coverage"]["crash_point_enumeration"] = (
        "every cut position 0..len of every sampled wire of <= 400 bytes, on each of the three end "
        "conditions; the set of wires is sampled"
    )
