"""
Baton-passing thread scheduler: real threading.Thread workers, exactly one of which is ever
runnable.  Pre-emption points are `line` events (sys.settrace) - or single bytecode
instructions (sys.monitoring INSTRUCTION events) - inside /repo/src/pyubx2; at each one the
scheduler decides whether to hand the baton to another thread.  The OS has no say: every
other thread is parked on its own semaphore.

Decisions are positions *relative to the running thread's current operation*
    {"t": thread, "op": index of the op in that thread, "s": step within the op, "to": target}
so that a recorded schedule stays meaningful when the minimiser removes other operations.
In generation mode decisions come from a PRNG and are recorded; in replay mode they come from
the recorded list and no PRNG is involved.
"""

import sys
import threading

from sim import core

REPO_PREFIX = core.REPO_SRC.rstrip("/") + "/pyubx2/"
MAX_STEPS = 3_000_000
MAX_SWITCHES = 50_000  # hand-overs per run; a 65 535-group message under p=0.2 would otherwise switch 600 000 times
MON_TOOL = 4


class ScheduleAbort(BaseException):
    """Raised inside workers when the step cap is exceeded."""


_ACTIVE = {"baton": None, "tids": {}}  # the scheduler of the run in progress (set by run_threads)


class SimLock:
    """
    Lock handed to the code under test in place of threading.Lock / RLock (installed by
    core.bootstrap while pyubx2 is imported, so module- and class-level locks are of this kind).
    Outside a scheduled run it is an ordinary lock.  Inside one, a worker that finds the lock taken
    does not block in C (the holder is parked and could never release it): it hands the baton to
    another thread and retries when it gets the baton back - an intercepted synchronisation point.
    """

    def __init__(self, reentrant=False):
        import _thread  # pylint: disable=import-outside-toplevel

        self._real = _thread.allocate_lock()
        self._reentrant = reentrant
        self._owner = None
        self._count = 0

    def _try(self, blocking, timeout):
        me = threading.get_ident()
        if self._reentrant and self._owner == me:
            self._count += 1
            return True
        ok = self._real.acquire(blocking, timeout) if blocking else self._real.acquire(False)
        if ok:
            self._owner = me
            self._count = 1
        return ok

    def acquire(self, blocking=True, timeout=-1):
        baton = _ACTIVE["baton"]
        tid = _ACTIVE["tids"].get(threading.get_ident()) if baton is not None else None
        if baton is None or tid is None or not blocking:
            return self._try(blocking, timeout)
        while not self._try(False, -1):
            baton.blocked_yield(tid)
        return True

    def release(self):
        if self._reentrant:
            if self._owner != threading.get_ident():
                raise RuntimeError("cannot release un-acquired lock")
            self._count -= 1
            if self._count:
                return
        self._owner = None
        self._count = 0
        self._real.release()

    def locked(self):
        return self._real.locked()

    __enter__ = acquire

    def __exit__(self, *exc):
        self.release()
        return False

    # what threading.Condition expects of an RLock-like object
    def _is_owned(self):
        return self._owner == threading.get_ident()

    def _at_fork_reinit(self):
        import _thread  # pylint: disable=import-outside-toplevel

        self._real = _thread.allocate_lock()
        self._owner = None
        self._count = 0


def _for_code_under_test():
    """True when the lock is being created by a module of the package under test."""
    frame = sys._getframe(2)  # pylint: disable=protected-access
    return str(frame.f_globals.get("__name__", "")).startswith("pyubx2")


def sim_lock():
    if not _for_code_under_test():
        return _REAL["Lock"]()
    return SimLock(False)


def sim_rlock():
    if not _for_code_under_test():
        return _REAL["RLock"]()
    return SimLock(True)


_REAL = {"Lock": threading.Lock, "RLock": threading.RLock}


class Baton:
    """Scheduler shared by the worker threads of one run."""

    def __init__(self, nthreads, policy=None, rng=None, replay=None, granularity="line"):
        self.n = nthreads
        self.sems = [threading.Semaphore(0) for _ in range(nthreads)]
        self.main_sem = threading.Semaphore(0)
        self.done = [False] * nthreads
        self.current = None
        self.steps = 0
        self.local = [0] * nthreads  # step within the current op, per thread
        self.opidx = [-1] * nthreads
        self.policy = policy or {"kind": "random", "p": 0.02}
        self.rng = rng
        self.granularity = granularity
        self.recorded = []  # decisions taken (generation or replay)
        self.replay = None
        if replay is not None:
            self.replay = {(d["t"], d["op"], d["s"]): d["to"] for d in replay}
        self.sites = {}
        self.aborted = False
        self.deadlock = False
        self.lock_yields = 0
        self.pct_points = None
        if self.policy.get("kind") == "pct" and rng is not None:
            est = self.policy.get("est", 2000)
            self.pct_points = {rng.randrange(1, max(est, 2)) for _ in range(self.policy.get("d", 3))}

    # -- called by workers -------------------------------------------------------------
    def begin_op(self, tid, idx):
        self.opidx[tid] = idx
        self.local[tid] = 0

    def step(self, tid, site):
        """A pre-emption point reached by the running thread."""
        if tid != self.current:  # pragma: no cover - would mean two runnable threads
            raise core.HarnessError(f"thread {tid} runs without the baton (holder {self.current})")
        self.steps += 1
        self.local[tid] += 1
        if self.steps > MAX_STEPS:
            self.aborted = True
            raise ScheduleAbort()
        target = None
        if len(self.recorded) >= MAX_SWITCHES:
            return  # enough hand-overs for one run (each costs two semaphore operations): run on without pre-emption
        if self.replay is not None:
            target = self.replay.get((tid, self.opidx[tid], self.local[tid]))
        elif self.rng is not None:
            if self.pct_points is not None:
                if self.steps in self.pct_points:
                    target = self._pick_other(tid)
            elif self.policy.get("kind") == "focus":
                fn = site.split(":")[1].split("@")[0] if ":" in site else ""
                p = self.policy.get("p_in", 0.5) if fn == self.policy.get("func") else self.policy.get("p", 0.0)
                if p and self.rng.random() < p:
                    target = self._pick_other(tid)
            elif self.rng.random() < self.policy.get("p", 0.02):
                target = self._pick_other(tid)
        if target is None or target == tid or target >= self.n or self.done[target]:
            return
        self.recorded.append({"t": tid, "op": self.opidx[tid], "s": self.local[tid], "to": target})
        self.sites[site] = self.sites.get(site, 0) + 1
        self._switch(tid, target)

    def _pick_other(self, tid):
        cands = [i for i in range(self.n) if i != tid and not self.done[i]]
        if not cands:
            return None
        return self.rng.choice(cands)

    def _switch(self, tid, target):
        self.current = target
        self.sems[target].release()
        self.sems[tid].acquire()

    def blocked_yield(self, tid):
        """The running thread cannot proceed (lock held by a parked thread): run somebody else."""
        self.lock_yields += 1
        if self.lock_yields > 200_000:
            self.aborted = True
            self.deadlock = True
            raise ScheduleAbort()
        for k in range(1, self.n + 1):
            cand = (tid + k) % self.n
            if cand != tid and not self.done[cand]:
                self._switch(tid, cand)
                return
        # every other thread has finished and the lock is still held: nobody will ever release it
        self.aborted = True
        self.deadlock = True
        raise ScheduleAbort()

    def wait_turn(self, tid):
        self.sems[tid].acquire()

    def finish(self, tid):
        """Thread has no more work: hand the baton to the lowest-numbered unfinished thread."""
        self.done[tid] = True
        for i in range(self.n):
            if not self.done[i]:
                self.current = i
                self.sems[i].release()
                return
        self.current = None
        self.main_sem.release()

    # -- called by the main thread -----------------------------------------------------
    def start(self, first=0):
        self.current = first
        self.sems[first].release()

    def join(self):
        self.main_sem.acquire()


def make_tracer(baton, tid):
    """sys.settrace function for one worker thread: line events inside pyubx2 are steps."""

    def local_trace(frame, event, arg):  # pylint: disable=unused-argument
        if event == "line":
            code = frame.f_code
            baton.step(tid, f"{code.co_filename[len(REPO_PREFIX):]}:{code.co_name}:{frame.f_lineno}")
        return local_trace

    def tracer(frame, event, arg):  # pylint: disable=unused-argument
        if event == "call" and frame.f_code.co_filename.startswith(REPO_PREFIX):
            return local_trace
        return None

    return tracer


class InstructionMonitor:
    """PEP 669 INSTRUCTION events inside pyubx2 as pre-emption points (finer than lines)."""

    def __init__(self, baton, tid_of_thread):
        self.baton = baton
        self.tid_of_thread = tid_of_thread  # threading.get_ident() -> tid

    def __enter__(self):
        mon = sys.monitoring
        try:
            mon.use_tool_id(MON_TOOL, "dst-instr-sched")
        except ValueError:
            pass
        baton = self.baton
        tids = self.tid_of_thread
        get_ident = threading.get_ident
        disable = mon.DISABLE

        def on_instr(code, offset):
            if not code.co_filename.startswith(REPO_PREFIX):
                return disable
            tid = tids.get(get_ident())
            if tid is None:
                return None
            baton.step(tid, f"{code.co_filename[len(REPO_PREFIX):]}:{code.co_name}@{offset}")
            return None

        mon.register_callback(MON_TOOL, mon.events.INSTRUCTION, on_instr)
        mon.set_events(MON_TOOL, mon.events.INSTRUCTION)
        return self

    def __exit__(self, *exc):
        mon = sys.monitoring
        mon.set_events(MON_TOOL, 0)
        mon.register_callback(MON_TOOL, mon.events.INSTRUCTION, None)
        mon.restart_events()
        return False


def run_threads(op_lists, run_op, policy=None, rng=None, replay=None, granularity="line"):
    """
    Execute op_lists[i] in worker thread i under the baton scheduler.
    run_op(tid, idx, op) -> result is called inside the worker for each op.
    Returns (results per thread, baton).
    """
    n = len(op_lists)
    baton = Baton(n, policy=policy, rng=rng, replay=replay, granularity=granularity)
    results = [[] for _ in range(n)]
    errors = []
    idents = {}

    def worker(tid):
        idents[threading.get_ident()] = tid
        baton.wait_turn(tid)
        if granularity == "line":
            sys.settrace(make_tracer(baton, tid))
        try:
            for idx, op in enumerate(op_lists[tid]):
                baton.begin_op(tid, idx)
                results[tid].append(run_op(tid, idx, op))
        except ScheduleAbort:
            pass
        except BaseException as err:  # pylint: disable=broad-except
            errors.append(f"{type(err).__name__}: {err}")
        finally:
            sys.settrace(None)
            baton.finish(tid)

    threads = [threading.Thread(target=worker, args=(i,), name=f"dst-worker-{i}", daemon=True) for i in range(n)]
    _ACTIVE["baton"], _ACTIVE["tids"] = baton, idents
    for t in threads:
        t.start()
    if granularity == "instruction":
        # every worker registers its ident before parking; wait until all are parked
        while len(idents) < n:
            pass
        with InstructionMonitor(baton, idents):
            baton.start(0)
            baton.join()
    else:
        baton.start(0)
        baton.join()
    for t in threads:
        t.join(timeout=10)
    _ACTIVE["baton"], _ACTIVE["tids"] = None, {}
    if errors:
        raise core.HarnessError("worker thread failed: " + "; ".join(errors))
    return results, baton
