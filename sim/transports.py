"""
Simulated transports: the seams through which the real reader meets the simulated world.

* SimFile(io.BytesIO)      - file-like reference transport, with call ledger and step budget
* SimSocket(socket.socket) - recv()-based transport driven by an arrival schedule and a
                             virtual clock; the real SocketWrapper sits on top, unmodified
* SimSerial                - pyserial-like read(n)/readline() with timeout (short reads)

All of them are pure functions of their constructor arguments: no PRNG, no wall clock.
"""

import io
import os
import socket


class SimBudgetExceeded(BaseException):
    """Step budget overrun (= hang). BaseException so no `except Exception` swallows it."""


class _Budget:
    """Counts transport calls; raises SimBudgetExceeded deterministically."""

    def __init__(self, wire_len: int, factor: int = 4, slack: int = 64, after_end: int = 64):
        self.limit = factor * wire_len + slack
        self.after_end_limit = after_end
        self.calls = 0
        self.after_end = 0

    def tick(self, at_end: bool):
        self.calls += 1
        if at_end:
            self.after_end += 1
        else:
            self.after_end = 0
        if self.calls > self.limit:
            raise SimBudgetExceeded(f"{self.calls} transport calls > budget {self.limit}")
        if self.after_end > self.after_end_limit:
            raise SimBudgetExceeded(
                f"{self.after_end} consecutive transport calls after end-of-data"
            )


class SimFile(io.BytesIO):
    """Real BytesIO semantics + ledger of (op, offset, requested, returned)."""

    def __init__(self, wire: bytes, log=None):
        super().__init__(wire)
        self.wire_len = len(wire)
        self.budget = _Budget(len(wire))
        self.ledger = [] if log is None else log
        self.eof_reports = 0

    def read(self, size=-1):
        off = self.tell()
        self.budget.tick(off >= self.wire_len)
        data = super().read(size)
        self.ledger.append(("read", off, size, len(data)))
        if len(data) == 0 and size != 0:
            self.eof_reports += 1
        return data

    def readline(self, size=-1):
        off = self.tell()
        self.budget.tick(off >= self.wire_len)
        data = super().readline(size)
        self.ledger.append(("readline", off, size, len(data)))
        if len(data) == 0:
            self.eof_reports += 1
        return data

    @property
    def handed_out(self) -> int:
        return self.tell()

    @property
    def sim_seconds(self) -> float:
        return 0.0


class CapFile(SimFile):
    """
    File-like stream that never returns more than `cap` bytes per call (a slow or chunked
    device driver): read(n) returns min(n, cap) bytes, readline() at most cap bytes.
    """

    def __init__(self, wire: bytes, cap: int, log=None):
        super().__init__(wire, log)
        self.cap = max(1, int(cap))
        self.capped_reads = 0

    def read(self, size=-1):
        if size is None or size < 0 or size > self.cap:
            self.capped_reads += 1
            size = self.cap
        return super().read(size)

    def readline(self, size=-1):
        return super().readline(self.cap)


class PipeFile(SimFile):
    """
    File object over a pipe / FIFO / socket.makefile(): read and readline work, but the stream is
    not seekable - tell() and seek() exist and raise OSError (ESPIPE), seekable() is False.
    """

    def read(self, size=-1):
        off = io.BytesIO.tell(self)
        self.budget.tick(off >= self.wire_len)
        data = io.BytesIO.read(self, size)
        self.ledger.append(("read", off, size, len(data)))
        return data

    def readline(self, size=-1):
        off = io.BytesIO.tell(self)
        self.budget.tick(off >= self.wire_len)
        data = io.BytesIO.readline(self, size)
        self.ledger.append(("readline", off, size, len(data)))
        return data

    def tell(self):
        raise OSError(29, "Illegal seek")

    def seek(self, *args):
        raise OSError(29, "Illegal seek")

    def seekable(self):
        return False

    @property
    def handed_out(self) -> int:
        return io.BytesIO.tell(self)


class SimSocket(socket.socket):
    """
    A socket whose peer and network are simulated.

    schedule: {"segments": [[t, nbytes], ...]   arrival times (non-decreasing) and sizes,
               "timeout": float | None            socket timeout,
               "end": "close" | "timeout" | "reset"   what happens after the last byte,
               "host_delay": float                virtual processing time charged per recv}
    recv(bufsize) returns whatever has arrived by `now`, at most bufsize bytes; if nothing
    has arrived it jumps the clock to the next arrival when that is within the timeout,
    else advances by the timeout and raises TimeoutError.
    """

    # pylint: disable=super-init-not-called
    def __new__(cls, *args, **kwargs):
        return socket.socket.__new__(cls)

    def __init__(self, wire: bytes, schedule: dict, log=None):
        self._wire = bytes(wire)
        segs = schedule.get("segments") or ([[0.0, len(wire)]] if wire else [])
        self._arrivals = []  # (time, end_offset)
        off = 0
        t_prev = 0.0
        for t, n in segs:
            off += n
            t_prev = max(t_prev, float(t))  # a byte stream is delivered in order: no segment overtakes an earlier one
            self._arrivals.append((t_prev, off))
        if off != len(wire):
            raise ValueError(f"segments cover {off} bytes, wire has {len(wire)}")
        self._timeout = schedule.get("timeout")
        self._nonblocking = bool(schedule.get("nonblocking"))
        self._fileno = int(schedule.get("fileno", 7))  # descriptor number (the lowest free one, as the OS hands out)
        self._end = schedule.get("end", "close")
        if self._end == "timeout" and self._timeout is None:
            self._timeout = 1.0
        self._host_delay = float(schedule.get("host_delay", 0.0))
        self.now = 0.0
        self._pos = 0  # bytes handed out
        self._ai = 0  # index of first arrival not yet (fully) visible
        self._visible = 0  # bytes arrived by now
        self.ledger = [] if log is None else log
        self.budget = _Budget(len(wire))
        self.end_reports = 0
        self.midstream_timeouts = 0
        self.sent = []
        self.closed = False

    def _advance_visibility(self):
        while self._ai < len(self._arrivals) and self._arrivals[self._ai][0] <= self.now:
            self._visible = self._arrivals[self._ai][1]
            self._ai += 1

    def recv(self, bufsize, flags=0):
        if self.closed:
            import errno  # pylint: disable=import-outside-toplevel

            raise OSError(errno.EBADF, "Bad file descriptor")
        self.budget.tick(self._pos >= len(self._wire))
        self.now += self._host_delay
        self._advance_visibility()
        if self._visible == self._pos:
            if self._ai < len(self._arrivals):
                t_next = self._arrivals[self._ai][0]
                if self._nonblocking:
                    # nothing has arrived yet: a non-blocking socket says so at once (EAGAIN)
                    self.midstream_timeouts += 1
                    self.ledger.append(("recv", self._pos, bufsize, "eagain"))
                    raise BlockingIOError(11, "Resource temporarily unavailable")
                if self._timeout is None or t_next - self.now <= self._timeout:
                    self.now = max(self.now, t_next)
                    self._advance_visibility()
                else:
                    self.now += self._timeout
                    self.midstream_timeouts += 1
                    self.ledger.append(("recv", self._pos, bufsize, "timeout"))
                    raise TimeoutError("simulated timeout (stall)")
            else:
                self.end_reports += 1
                if self._end == "close":
                    self.ledger.append(("recv", self._pos, bufsize, 0))
                    return b""
                self.now += self._timeout if self._timeout is not None else 1.0
                if self._end == "reset":
                    self.ledger.append(("recv", self._pos, bufsize, "reset"))
                    raise ConnectionResetError("simulated reset")
                if self._end in ("ehostunreach", "ebadf", "enotconn"):
                    import errno  # pylint: disable=import-outside-toplevel

                    code = {"ehostunreach": errno.EHOSTUNREACH, "ebadf": errno.EBADF, "enotconn": errno.ENOTCONN}[self._end]
                    self.ledger.append(("recv", self._pos, bufsize, self._end))
                    raise OSError(code, os.strerror(code))
                self.ledger.append(("recv", self._pos, bufsize, "timeout"))
                raise TimeoutError("simulated timeout (peer silent)")
        n = min(bufsize, self._visible - self._pos)
        data = self._wire[self._pos : self._pos + n]
        self.ledger.append(("recv", self._pos, bufsize, n))
        self._pos += n
        return data

    def recv_into(self, buffer, nbytes=0, flags=0):
        want = nbytes or len(buffer)
        data = self.recv(want, flags)
        buffer[: len(data)] = data
        return len(data)

    def send(self, data, flags=0):
        self.sent.append(bytes(data))
        return len(data)

    def idle(self, seconds: float):
        """Virtual time passes without a recv() (the application waits before asking again)."""
        self.now += seconds

    def everything_arrived(self) -> bool:
        """True when, at the current virtual time, the peer has sent its last byte."""
        return not self._arrivals or self._arrivals[-1][0] <= self.now

    def settimeout(self, value):
        self._timeout = value

    def gettimeout(self):
        return self._timeout

    def fileno(self):
        return -1 if self.closed else self._fileno

    def close(self):
        self.closed = True

    def __del__(self):
        pass

    def __repr__(self):
        return f"<SimSocket pos={self._pos}/{len(self._wire)} now={self.now}>"

    @property
    def handed_out(self) -> int:
        return self._pos

    @property
    def wire_len(self) -> int:
        return len(self._wire)

    @property
    def sim_seconds(self) -> float:
        return self.now


class SimTLSSocket(SimSocket):
    """
    A socket subclass that - like ssl.SSLSocket - also has read(len) / write(data) methods with
    *record* semantics: read(len) returns up to len bytes of what has arrived, there is no readline.
    The library must treat it as the socket it is.
    """

    def read(self, len=1024, buffer=None):  # pylint: disable=redefined-builtin
        return self.recv(len)

    def write(self, data):
        return self.send(data)


class PortNotOpenError(IOError):
    """What pyserial raises when a closed port is used."""


class SimSerial:
    """
    pyserial-like port: read(n) blocks until n bytes have arrived or `timeout` elapsed and
    returns what it has (possibly fewer than n, possibly none); readline() likewise up to LF.
    schedule: {"segments": [[t, nbytes], ...], "timeout": float}
    """

    def __init__(self, wire: bytes, schedule: dict, log=None):
        self._wire = bytes(wire)
        self._byte_time = []
        segs = schedule.get("segments") or ([[0.0, len(wire)]] if wire else [])
        for t, n in segs:
            self._byte_time.extend([float(t)] * n)
        if len(self._byte_time) != len(wire):
            raise ValueError("segments do not cover the wire")
        self._timeout = float(schedule.get("timeout", 1.0))
        self.now = 0.0
        self._pos = 0
        self.ledger = [] if log is None else log
        self.budget = _Budget(len(wire))
        self.short_reads = 0
        self.discarded = 0  # bytes thrown away by reset_input_buffer()

    def _take(self, want: int, stop_at_lf: bool) -> bytes:
        self._check_open()
        deadline = self.now + self._timeout
        end = self._pos
        while end < len(self._wire) and end - self._pos < want:
            if self._byte_time[end] > deadline:
                break
            end += 1
            if stop_at_lf and self._wire[end - 1] == 0x0A:
                break
        got = self._wire[self._pos : end]
        complete = (len(got) == want) or (stop_at_lf and got[-1:] == b"\n")
        if complete:
            self.now = max(self.now, self._byte_time[end - 1]) if got else self.now
        else:
            self.now = deadline
            if got:
                self.short_reads += 1
        self._pos = end
        return got

    def read(self, size=1):
        off = self._pos
        self.budget.tick(off >= len(self._wire))
        data = self._take(size, False) if size > 0 else b""
        self.ledger.append(("read", off, size, len(data)))
        return data

    def readline(self):
        off = self._pos
        self.budget.tick(off >= len(self._wire))
        data = self._take(1 << 30, True)
        self.ledger.append(("readline", off, -1, len(data)))
        return data

    def read_until(self, expected=b"\n", size=None):
        """pyserial's read_until: up to and including `expected`, or `size` bytes, or the timeout."""
        off = self._pos
        self.budget.tick(off >= len(self._wire))
        deadline = self.now + self._timeout
        end = self._pos
        limit = len(self._wire) if size is None else min(len(self._wire), self._pos + size)
        hit = False
        while end < limit:
            if self._byte_time[end] > deadline:
                break
            end += 1
            if expected and self._wire[self._pos : end].endswith(expected):
                hit = True
                break
        data = self._wire[self._pos : end]
        if hit or (size is not None and len(data) == size):
            self.now = max(self.now, self._byte_time[end - 1]) if data else self.now
        else:
            self.now = deadline
        self._pos = end
        self.ledger.append(("read_until", off, -1, len(data)))
        return data

    @property
    def in_waiting(self):
        n = self._pos
        while n < len(self._wire) and self._byte_time[n] <= self.now:
            n += 1
        return n - self._pos

    # ---- the rest of what a pyserial port offers, with its real consequences: a library that calls one of
    # ---- these on the application's port gets what the real port would do
    port = name = "/dev/ttySIM0"
    baudrate = 9600
    bytesize, parity, stopbits = 8, "N", 1
    is_open = True
    out_waiting = 0

    @property
    def timeout(self):
        return self._timeout

    @timeout.setter
    def timeout(self, value):
        self.ledger.append(("set_timeout", self._pos, -1, 0))
        self._timeout = float(1 << 20 if value is None else value)

    def reset_input_buffer(self):
        """Discard everything received and not yet read (what pyserial's method of that name does)."""
        self._check_open()
        n = self.in_waiting
        self.ledger.append(("reset_input_buffer", self._pos, -1, n))
        self.discarded += n
        self._pos += n

    flushInput = reset_input_buffer  # the deprecated alias pyserial still carries

    def reset_output_buffer(self):
        self._check_open()
        self.ledger.append(("reset_output_buffer", self._pos, -1, 0))

    flushOutput = reset_output_buffer

    def flush(self):
        self._check_open()
        self.ledger.append(("flush", self._pos, -1, 0))

    def write(self, data):
        self._check_open()
        self.ledger.append(("write", self._pos, -1, len(data)))
        return len(data)

    def cancel_read(self):
        self.ledger.append(("cancel_read", self._pos, -1, 0))

    def close(self):
        self.ledger.append(("close", self._pos, -1, 0))
        self.is_open = False

    def isOpen(self):  # noqa: N802  pylint: disable=invalid-name
        return self.is_open

    def _check_open(self):
        if not self.is_open:
            raise PortNotOpenError("Attempting to use a port that is not open")

    def readable(self):
        return True

    def writable(self):
        return True

    def seekable(self):
        return False

    def readinto(self, buf):
        data = self.read(len(buf))
        buf[: len(data)] = data
        return len(data)

    def readall(self):
        out = bytearray()
        while True:
            data = self.read(4096)
            if not data:
                return bytes(out)
            out += data

    @property
    def handed_out(self) -> int:
        return self._pos

    @property
    def wire_len(self) -> int:
        return len(self._wire)

    @property
    def sim_seconds(self) -> float:
        return self.now


class PlainBytesIO:
    """
    Factory for an EXACT io.BytesIO (not a subclass): a reader may legitimately treat the standard
    stream types specially (e.g. read ahead and seek back).  No ledger and no call budget here; the
    attributes the harness needs are attached through a tiny shim.
    """

    @staticmethod
    def make(wire: bytes):
        stream = io.BytesIO(wire)
        return _BytesIOShim(stream, len(wire))


class _BytesIOShim:
    """What the harness knows about a plain BytesIO transport (the reader gets .stream itself)."""

    def __init__(self, stream, n):
        self.stream = stream
        self.wire_len = n
        self.ledger = []
        self.sim_seconds = 0.0
        self.now = 0.0

    @property
    def handed_out(self):
        return self.stream.tell()


class _RawWire(io.RawIOBase):
    """Raw (unbuffered) byte source for a real io.BufferedReader; counts the reads it serves."""

    def __init__(self, wire: bytes):
        super().__init__()
        self._wire = bytes(wire)
        self._pos = 0
        self.raw_reads = 0

    def readable(self):
        return True

    def seekable(self):
        return True

    def seek(self, offset, whence=0):
        base = {0: 0, 1: self._pos, 2: len(self._wire)}[whence]
        self._pos = min(max(base + offset, 0), len(self._wire))
        return self._pos

    def tell(self):
        return self._pos

    def readinto(self, b):
        self.raw_reads += 1
        if self.raw_reads > 8 * len(self._wire) + 256:
            raise SimBudgetExceeded("raw reads without end")
        n = min(len(b), len(self._wire) - self._pos)
        b[:n] = self._wire[self._pos : self._pos + n]
        self._pos += n
        return n


def make_buffered(wire: bytes, buffer_size: int):
    """An EXACT io.BufferedReader (peek, read1, tell, seek ...) as open(path, 'rb') returns, with a chosen buffer size."""
    raw = _RawWire(wire)
    return _BytesIOShim(io.BufferedReader(raw, buffer_size=max(int(buffer_size), 1)), len(wire))


class SimDatagramSocket(SimSocket):
    """
    Datagram semantics (UDP, AF_UNIX SOCK_DGRAM): every arrival segment is one datagram; recv(n)
    returns at most n bytes of the NEXT datagram and discards the rest of it.
    """

    def recv(self, bufsize, flags=0):
        if self.closed:
            import errno  # pylint: disable=import-outside-toplevel

            raise OSError(errno.EBADF, "Bad file descriptor")
        self.budget.tick(self._pos >= len(self._wire))
        self.now += self._host_delay
        idx = getattr(self, "_dg", 0)
        if idx >= len(self._arrivals):
            self.end_reports += 1
            if self._end == "close":
                self.ledger.append(("recv", self._pos, bufsize, 0))
                return b""
            self.now += self._timeout if self._timeout is not None else 1.0
            self.ledger.append(("recv", self._pos, bufsize, "timeout"))
            raise TimeoutError("simulated timeout (peer silent)")
        t, end = self._arrivals[idx]
        start = self._arrivals[idx - 1][1] if idx else 0
        if t > self.now:
            if self._timeout is not None and t - self.now > self._timeout:
                self.now += self._timeout
                self.midstream_timeouts += 1
                self.ledger.append(("recv", self._pos, bufsize, "timeout"))
                raise TimeoutError("simulated timeout (stall)")
            self.now = t
        self._dg = idx + 1
        data = self._wire[start : min(end, start + bufsize)]
        self.dropped_tail = getattr(self, "dropped_tail", 0) + (end - start - len(data))
        self._pos = end
        self.ledger.append(("recv", start, bufsize, len(data)))
        return data


def fit_segments(segs, n: int):
    """Clip or extend an arrival schedule so that it covers exactly n bytes."""
    out, off = [], 0
    for t, k in segs or ():
        if off >= n:
            break
        k2 = min(k, n - off)
        if k2 > 0:
            out.append([t, k2])
            off += k2
    if off < n:
        if out:
            out[-1][1] += n - off
        else:
            out.append([0.0, n])
    return out


def make_transport(wire: bytes, tr: dict):
    """Build a transport from the scenario's "transport" dict."""
    kind = tr.get("kind", "file")
    cut = tr.get("cut")
    if cut is not None:
        wire = wire[:cut]
    if kind == "file":
        return SimFile(wire)
    if kind == "capfile":
        return CapFile(wire, tr.get("cap", 16))
    if kind == "pipe":
        return PipeFile(wire)
    if kind == "bytesio":
        return PlainBytesIO.make(wire)
    if kind == "buffered":
        return make_buffered(wire, tr.get("buffer_size", 8192))
    if kind == "dgram":
        sched = dict(tr)
        if sched.get("segments") is not None:
            sched["segments"] = fit_segments(sched["segments"], len(wire))
        return SimDatagramSocket(wire, sched)
    if kind == "tlssocket":
        sched = dict(tr)
        if sched.get("segments") is not None:
            sched["segments"] = fit_segments(sched["segments"], len(wire))
        return SimTLSSocket(wire, sched)
    sched = dict(tr)
    if sched.get("segments") is not None:
        sched["segments"] = fit_segments(sched["segments"], len(wire))
    if kind == "socket":
        return SimSocket(wire, sched)
    if kind == "serial":
        return SimSerial(wire, sched)
    raise ValueError(f"unknown transport kind {kind}")
