"""Deterministic simulation framework for pyubx2 (see /verif/DESIGN.md)."""
