"""
Deterministic step meter: counts backward-jump / branch events (PEP 669 sys.monitoring) in the
code under test and raises SimBudgetExceeded when a run exceeds its budget.  An endless loop
that makes no transport call is caught here; the count is a pure function of the execution,
so a violation replays exactly.
"""

import sys

from sim.transports import SimBudgetExceeded

TOOL_ID = 3
_state = {"count": 0, "budget": 0, "active": False}


def _on_jump(code, src, dst):  # pylint: disable=unused-argument
    st = _state
    st["count"] += 1
    if st["count"] > st["budget"]:
        st["count"] = 0  # allow unwinding code to run
        raise SimBudgetExceeded(f"more than {st['budget']} loop iterations in one run (no progress)")


class StepMeter:
    """Context manager: meter JUMP events while the body runs."""

    def __init__(self, budget: int):
        self.budget = budget
        self.used = 0

    def __enter__(self):
        mon = sys.monitoring
        if _state["active"]:
            raise RuntimeError("StepMeter is not re-entrant")
        try:
            mon.use_tool_id(TOOL_ID, "dst-step-meter")
        except ValueError:
            pass
        _state.update(count=0, budget=self.budget, active=True)
        mon.register_callback(TOOL_ID, mon.events.JUMP, _on_jump)
        mon.set_events(TOOL_ID, mon.events.JUMP)
        return self

    def __exit__(self, *exc):
        mon = sys.monitoring
        mon.set_events(TOOL_ID, 0)
        mon.register_callback(TOOL_ID, mon.events.JUMP, None)
        self.used = _state["count"]
        _state["active"] = False
        return False
