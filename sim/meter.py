"""
Deterministic step meter: counts backward-jump / branch events (PEP 669 sys.monitoring) in the
code under test and raises SimBudgetExceeded when a run exceeds its budget.  An endless loop
that makes no transport call is caught here; the count is a pure function of the execution,
so a violation replays exactly.
"""

import sys

from sim.transports import SimBudgetExceeded

TOOL_ID = 3
_state = {"count": 0, "budget": 0, "active": False}


def _on_jump(code, src, dst):  # pylint: disable=unused-argument
    st = _state
    st["count"] += 1
    if st["count"] > st["budget"] and st["active"]:
        st["count"] = 0  # allow unwinding code to run
        raise SimBudgetExceeded(f"more than {st['budget']} loop iterations in one run (no progress)")


class StepMeter:
    """
    Context manager: meter JUMP events while the body runs.  Monitoring is switched on once per
    process and stays on (toggling it re-instruments every code object); outside a metered region the
    callback only counts.  A meter opened inside another one (a check that measures a run which the
    reader harness meters as well) takes over and hands the outer one its count back on exit.
    """

    def __init__(self, budget: int):
        self.budget = budget
        self.used = 0
        self._outer = None

    def __enter__(self):
        if not _state.get("installed"):
            mon = sys.monitoring
            try:
                mon.use_tool_id(TOOL_ID, "dst-step-meter")
            except ValueError:
                pass
            mon.register_callback(TOOL_ID, mon.events.JUMP, _on_jump)
            mon.set_events(TOOL_ID, mon.events.JUMP)
            _state["installed"] = True
        self._outer = (_state["count"], _state["budget"], _state["active"])
        _state.update(count=0, budget=self.budget, active=True)
        return self

    def __exit__(self, *exc):
        self.used = _state["count"]
        count, budget, active = self._outer
        _state.update(count=count + self.used if active else 0, budget=budget, active=active)
        return False
