"""
The simulator's own wire-format code: sealers, checksums, well-formedness reference.
Nothing here calls into pyubx2 / pynmeagps / pyrtcm — these are the independent arithmetic
the oracles rely on (cross-checked against literal vectors in `dst.py selftest`).
"""

UBX_SYNC = b"\xb5\x62"


def fletcher8(data: bytes) -> bytes:
    a = b = 0
    for c in data:
        a = (a + c) & 0xFF
        b = (b + a) & 0xFF
    return bytes((a, b))


def ubx_frame(cls: int, mid: int, payload: bytes, length=None) -> bytes:
    """Seal a UBX frame (length field may be forced to a stale value)."""
    ln = len(payload) if length is None else length
    body = bytes((cls & 0xFF, mid & 0xFF)) + ln.to_bytes(2, "little") + payload
    return UBX_SYNC + body + fletcher8(body)


def ubx_reseal(x: bytes) -> bytes:
    """Recompute the checksum over x[2:-2] leaving every other byte (incl. length) alone."""
    if len(x) < 4:
        return x
    return x[:-2] + fletcher8(x[2:-2])


def ubx_well_formed(x: bytes) -> bool:
    return (
        len(x) >= 8
        and x[0:2] == UBX_SYNC
        and int.from_bytes(x[4:6], "little") == len(x) - 8
        and x[-2:] == fletcher8(x[2:-2])
    )


def nmea_cksum(content: bytes) -> bytes:
    c = 0
    for ch in content:
        c ^= ch
    return b"%02X" % c


def nmea_sentence(content: bytes, cksum=None) -> bytes:
    """content = everything between '$' and '*'."""
    ck = nmea_cksum(content) if cksum is None else cksum
    return b"$" + content + b"*" + ck + b"\r\n"


_CRC24Q_POLY = 0x1864CFB


def crc24q(data: bytes) -> int:
    crc = 0
    for byte in data:
        crc ^= byte << 16
        for _ in range(8):
            crc <<= 1
            if crc & 0x1000000:
                crc ^= _CRC24Q_POLY
    return crc & 0xFFFFFF


def rtcm_frame(payload: bytes, crc=None) -> bytes:
    ln = len(payload)
    assert ln < 1024
    hdr = bytes((0xD3, (ln >> 8) & 0x03, ln & 0xFF))
    c = crc24q(hdr + payload) if crc is None else crc
    return hdr + payload + c.to_bytes(3, "big")


def proto_of(raw: bytes):
    """The simulator's own classifier: which protocol a raw item's preamble names."""
    if raw[0:2] == UBX_SYNC:
        return "ubx"
    if raw[0:1] == b"\x24":
        return "nmea"
    if raw[0:1] == b"\xd3":
        return "rtcm"
    return None


PROTO_BIT = {"nmea": 1, "ubx": 2, "rtcm": 4}
