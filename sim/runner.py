"""
Process pool, time boxes, aggregation, minimisation, replay files, evidence files.

A check module provides:
    PROPERTY, LEVEL, RULE, ASSUMPTIONS, REAL_VS_STUB
    batches(tier, base_seed)        -> iterator of batches (JSON-able lists of units); for the
                                       thorough tier the iterator may be endless
    run_unit(unit)                  -> UnitResult
    execute(scenario)               -> None | (clause, detail)      (pure function of scenario)
    shrink(scenario, fails)         -> minimised scenario            (optional; default generic)
"""

import faulthandler
import json
import multiprocessing
import os
import subprocess
import sys
import time
from concurrent.futures import FIRST_COMPLETED, ProcessPoolExecutor, wait

from sim import core, minimise

def _now():
    """Real monotonic clock (the time module may carry the simulator's seam)."""
    real = getattr(core.VirtualClock, "real", None)
    return real["monotonic"]() if real else time.monotonic()


NPROC = int(os.environ.get("VERIF_NPROC", "16"))
MAX_REPORTED = 10
DETERMINISM_UNITS = 12
DIGEST_CAP = 6_000_000  # distinct-execution digests held in memory; beyond it counts are lower bounds
BATCH_WATCHDOG_S = int(os.environ.get("VERIF_BATCH_WATCHDOG_S", "900"))


class UnitResult:
    """Aggregated outcome of one or more executions."""

    def __init__(self):
        self.evaluations = 0  # executions of the real reader / parser
        self.runs = 0  # scenarios
        self.counters = core.Counters()  # faults_fired / probes, flat
        self.digests = set()  # event-log digests (truncated ints)
        self.nontrivial = set()  # digests of non-trivial runs
        self.violations = []  # scenario dicts carrying "clause" and "detail"
        self.samples = []
        self.sim_seconds = 0.0
        self.skipped_base_failed = 0
        self.extra = {}  # check-specific aggregates: name -> Counters

    def log(self, obj, nontrivial: bool):
        d = int(core.digest(obj)[:15], 16)
        self.digests.add(d)
        if nontrivial:
            self.nontrivial.add(d)

    def merge(self, o):
        self.evaluations += o.evaluations
        self.runs += o.runs
        self.counters.merge(o.counters)
        if len(self.digests) < DIGEST_CAP:
            self.digests |= o.digests
            self.nontrivial |= o.nontrivial
        else:
            self.extra.setdefault("_meta", core.Counters()).hit("digest_cap_reached")
        for v in o.violations:
            if len(self.violations) < 200:
                self.violations.append(v)
        for s in o.samples:
            if len(self.samples) < 5:
                self.samples.append(s)
        self.sim_seconds += o.sim_seconds
        self.skipped_base_failed += o.skipped_base_failed
        for k, v in o.extra.items():
            self.extra.setdefault(k, core.Counters()).merge(v)
        return self


_MOD = None


def _worker_init(modname):
    global _MOD  # pylint: disable=global-statement
    core.bootstrap()
    import importlib  # pylint: disable=import-outside-toplevel

    _MOD = importlib.import_module(modname)


def _run_batch(batch):
    faulthandler.dump_traceback_later(BATCH_WATCHDOG_S, exit=True)
    try:
        agg = UnitResult()
        for unit in batch:
            res = _MOD.run_unit(unit)
            agg.merge(res)
        # minimise inside the worker (parallel), at most 2 per batch
        mins = []
        seen = set()
        for scn in agg.violations:
            if scn["clause"] in seen:
                continue
            seen.add(scn["clause"])
            if len(mins) >= 2:
                break
            mins.append(minimise_scenario(_MOD, scn))
        n_viol = len(agg.violations)
        agg.violations = mins
        agg.extra.setdefault("_meta", core.Counters()).hit("raw_violations", n_viol)
        return agg
    finally:
        faulthandler.cancel_dump_traceback_later()


def minimise_scenario(mod, scn):
    clause = scn["clause"]

    def fails(cand):
        try:
            v = mod.execute(cand)
        except Exception:  # pylint: disable=broad-except
            return False
        return v is not None and v[0] == clause

    orig_size = minimise.size_of(scn)
    if hasattr(mod, "shrink"):
        small = mod.shrink(scn, fails)
    else:
        small = minimise.shrink_generic(scn, fails)
    v = mod.execute(small)
    if v is None or v[0] != clause:  # must not happen: shrinking keeps `fails` true
        small = scn
        v = mod.execute(small)
    small = dict(small)
    small["property"] = mod.PROPERTY
    small["clause"] = clause
    small["observed"] = {"detail": v[1] if v else scn.get("detail")}
    small["minimised_from"] = orig_size
    small.pop("detail", None)
    # kept so that the parent can fall back to the unminimised scenario when the minimised one
    # sits on an interpreter-dependent threshold (e.g. recursion depth) and does not reproduce
    orig = dict(scn)
    orig["property"] = mod.PROPERTY
    orig["observed"] = {"detail": scn.get("detail")}
    orig.pop("detail", None)
    orig["minimised_from"] = "not minimised (the minimised form did not reproduce in a fresh interpreter)"
    small["_original"] = orig
    return small


def write_replay(mod, scn, idx):
    rdir = os.environ.get("VERIF_REPLAY_DIR") or os.path.join(core.VERIF_DIR, "replays")
    os.makedirs(rdir, exist_ok=True)
    name = f"{mod.PROPERTY}-{scn.get('seed', 0)}-{idx}.json"
    path = os.path.join(rdir, name)
    with open(path, "w", encoding="utf-8") as fh:
        json.dump(core.jsonable(scn), fh, indent=1, sort_keys=True)
    return path


def confirm_fresh(path):
    """Re-execute a replay file in a fresh interpreter; True if it reproduces (exit 1)."""
    env = dict(os.environ)
    env["PYTHONHASHSEED"] = "0"
    proc = subprocess.run(
        [sys.executable, os.path.join(core.VERIF_DIR, "dst.py"), "replay", path],
        capture_output=True,
        text=True,
        env=env,
        timeout=600,
        check=False,
    )
    return proc.returncode == 1 and "VIOLATION" in proc.stdout, proc


def determinism_slice(mod, units):
    """
    Execute the same units in two fresh interpreters (PYTHONHASHSEED 0 and random, different
    worker counts) and compare per-unit digests.  Returns (n_units, identical, error).
    """
    outs = []
    for hs, nproc in (("0", "3"), ("random", "5")):
        env = dict(os.environ)
        env["PYTHONHASHSEED"] = hs
        env["VERIF_NO_REEXEC"] = "1"
        env["VERIF_NPROC"] = nproc
        proc = subprocess.run(
            [sys.executable, os.path.join(core.VERIF_DIR, "dst.py"), "digest", mod.PROPERTY],
            input=json.dumps(units), capture_output=True, text=True, env=env, timeout=900, check=False,
        )
        line = [l for l in proc.stdout.splitlines() if l.startswith("UNITDIGESTS ")]
        if proc.returncode != 0 or not line:
            return len(units), False, f"digest child rc={proc.returncode}: {proc.stderr[-400:]}"
        outs.append(json.loads(line[0][12:]))
    return len(units), outs[0] == outs[1], None


def debuglog_slice(mod, units, level="DEBUG"):
    """
    The same slice with the package's logger set to `level`: an application that turns on DEBUG
    logging, or silences the package with CRITICAL, must not change what the library accepts, raises,
    delivers or reports to its error handler.
    """
    env = dict(os.environ)
    env["PYTHONHASHSEED"] = "0"
    env["VERIF_NO_REEXEC"] = "1"
    env["VERIF_NPROC"] = "4"
    env["VERIF_PYUBX2_LOGLEVEL"] = level
    proc = subprocess.run(
        [sys.executable, os.path.join(core.VERIF_DIR, "dst.py"), "units", mod.PROPERTY],
        input=json.dumps(units), capture_output=True, text=True, env=env, timeout=1200, check=False,
    )
    line = [l for l in proc.stdout.splitlines() if l.startswith("UNITVIOLATIONS ")]
    if proc.returncode != 0 or not line:
        return [], 0, f"{level}-logging slice rc={proc.returncode}: {proc.stderr[-400:]}"
    data = json.loads(line[0][15:])
    for scn in data["violations"]:
        scn["environment"] = {"VERIF_PYUBX2_LOGLEVEL": level}
    return data["violations"], data["evaluations"], None


def optimize_slice(mod, units):
    """
    Execute a slice of units under `python -O` (assert statements compiled away): library logic that
    lives in assert statements disappears there.  Returns (violations, evaluations, error).
    """
    env = dict(os.environ)
    env["PYTHONHASHSEED"] = "0"
    env["VERIF_NO_REEXEC"] = "1"
    env["VERIF_NPROC"] = "4"
    proc = subprocess.run(
        [sys.executable, "-O", os.path.join(core.VERIF_DIR, "dst.py"), "units", mod.PROPERTY],
        input=json.dumps(units), capture_output=True, text=True, env=env, timeout=1200, check=False,
    )
    line = [l for l in proc.stdout.splitlines() if l.startswith("UNITVIOLATIONS ")]
    if proc.returncode != 0 or not line:
        return [], 0, f"python -O slice rc={proc.returncode}: {proc.stderr[-400:]}"
    data = json.loads(line[0][15:])
    for scn in data["violations"]:
        scn["interpreter_flags"] = ["-O"]
    return data["violations"], data["evaluations"], None


def load_known():
    path = os.path.join(core.VERIF_DIR, "known_findings.json")
    if not os.path.exists(path):
        return []
    with open(path, encoding="utf-8") as fh:
        return json.load(fh).get("findings", [])


def signature(mod, scn):
    if hasattr(mod, "signature"):
        return mod.signature(scn)
    return f"{scn['clause']}"


def run_regressions(mod):
    """Always-run minimised scenarios of repaired defects (and hand-written edge cases)."""
    reg_dir = os.path.join(core.VERIF_DIR, "regress")
    res = UnitResult()
    n = 0
    if os.path.isdir(reg_dir):
        for fn in sorted(os.listdir(reg_dir)):
            if not (fn.startswith(mod.PROPERTY + "-") and fn.endswith(".json")):
                continue
            with open(os.path.join(reg_dir, fn), encoding="utf-8") as fh:
                scn = json.load(fh)
            v = mod.execute(scn)
            res.evaluations += 1
            n += 1
            if v is not None:
                s = dict(scn)
                s["clause"], s["detail"] = v
                s["regression_file"] = fn
                res.violations.append(s)
    return res, n


def run_check(mod, tier, base_seed, budget_s=None, quiet=False):
    """Returns exit code (0 / 1 / 2)."""
    t0 = _now()
    modname = mod.__name__
    total = UnitResult()
    reg, n_reg = run_regressions(mod)
    reg.violations = [minimise_scenario(mod, s) for s in reg.violations[:MAX_REPORTED]]
    total.merge(reg)
    if tier == "thorough":
        budget = float(budget_s if budget_s is not None else os.environ.get("VERIF_BUDGET_S", "600"))
    else:
        budget = None
    if hasattr(mod, "prepare"):
        mod.prepare(tier)
    gen = mod.batches(tier, base_seed)
    known = [k for k in load_known() if k.get("property") == mod.PROPERTY]
    known_open = {k["signature"]: k for k in known if k.get("status") == "known"}
    known_sigs = set(known_open)
    known_hits, known_example = {}, {}
    n_batches = 0
    harness_error = None
    slice_units = []
    o_units = []  # seed-based units re-executed under `python -O`
    o_want = int(getattr(mod, "O_SLICE_UNITS", 200))
    ctx = multiprocessing.get_context("fork")
    with ProcessPoolExecutor(max_workers=NPROC, mp_context=ctx, initializer=_worker_init, initargs=(modname,)) as pool:
        pending = set()
        exhausted = False
        try:
            while True:
                while not exhausted and len(pending) < NPROC * 2:
                    if budget is not None and _now() - t0 > budget:
                        exhausted = True
                        break
                    if len(total.violations) >= MAX_REPORTED:
                        exhausted = True
                        break
                    try:
                        batch = next(gen)
                    except StopIteration:
                        exhausted = True
                        break
                    if len(slice_units) < DETERMINISM_UNITS and n_batches % 3 == 0:
                        slice_units.extend(batch[: max(1, DETERMINISM_UNITS // 4)])
                    if len(o_units) < o_want:
                        o_units.extend(u for u in batch if isinstance(u, dict) and "seed" in u and not u.get("cold"))
                    pending.add(pool.submit(_run_batch, batch))
                    n_batches += 1
                if not pending:
                    break
                done, pending = wait(pending, return_when=FIRST_COMPLETED)
                for fut in done:
                    part = fut.result()
                    keep = []
                    for scn in part.violations:
                        sig = signature(mod, scn)
                        if sig in known_sigs:
                            known_hits[sig] = known_hits.get(sig, 0) + 1
                            known_example.setdefault(sig, scn)
                        else:
                            keep.append(scn)
                    part.violations = keep
                    total.merge(part)
        except Exception as err:  # pylint: disable=broad-except
            harness_error = f"{type(err).__name__}: {err}"
            for fut in pending:
                fut.cancel()
    det = None
    if slice_units and not os.environ.get("VERIF_SKIP_DETERMINISM"):
        n_u, same, err = determinism_slice(mod, slice_units[:DETERMINISM_UNITS])
        det = {"units": n_u, "interpreters": 2, "identical": bool(same)}
        if err:
            harness_error = harness_error or err
        elif not same:
            harness_error = harness_error or "determinism slice: per-unit digests differ between two fresh interpreters"
    opt = None
    dbg = None
    if slice_units and not os.environ.get("VERIF_SKIP_DETERMINISM"):
        o_all = slice_units[:DETERMINISM_UNITS] + o_units[:o_want]
        o_viol, o_evals, err = optimize_slice(mod, o_all)
        opt = {"units": len(o_all), "evaluations": o_evals, "violations": len(o_viol)}
        if err:
            harness_error = harness_error or err
        for scn in o_viol:
            if signature(mod, scn) not in known_sigs:
                total.violations.append(scn)
        d_viol, d_evals, err = debuglog_slice(mod, o_all)
        dbg = {"units": len(o_all), "evaluations": d_evals, "violations": len(d_viol)}
        if err:
            harness_error = harness_error or err
        for scn in d_viol:
            if signature(mod, scn) not in known_sigs:
                total.violations.append(scn)
        q_viol, q_evals, err = debuglog_slice(mod, o_all, "CRITICAL")
        dbg["critical_level"] = {"units": len(o_all), "evaluations": q_evals, "violations": len(q_viol)}
        if err:
            harness_error = harness_error or err
        for scn in q_viol:
            if signature(mod, scn) not in known_sigs:
                total.violations.append(scn)
    wall = _now() - t0

    # ---- report violations: dedupe, write replay, confirm in a fresh interpreter
    reported = {}
    exit_code = 0
    unreproduced = []
    for scn in total.violations:
        original = scn.pop("_original", None)
        key = core.digest({k: v for k, v in scn.items() if k not in ("seed", "observed", "minimised_from", "note")})
        if key in reported:
            continue
        sig = signature(mod, scn)
        if sig in known_open:  # regressions path
            known_hits[sig] = known_hits.get(sig, 0) + 1
            reported[key] = None
            continue
        if len([r for r in reported.values() if r]) >= MAX_REPORTED:
            break
        path = write_replay(mod, scn, len(reported))
        ok, proc = confirm_fresh(path)
        if not ok and original is not None:
            scn = original
            path = write_replay(mod, scn, len(reported))
            ok, proc = confirm_fresh(path)
        if not ok and mod.PROPERTY != "C13":
            # the worker had executed other scenarios before this one: if the library carries state from
            # one reader / parse to the next, a single run in a fresh interpreter is the one case that
            # works.  The smallest history that shows it is the scenario itself executed twice.
            for cand in (scn, original):
                if cand is None or ok:
                    continue
                cand = dict(cand, repeat=2)
                path = write_replay(mod, cand, len(reported))
                ok, proc = confirm_fresh(path)
                if ok:
                    scn = cand
                    scn["observed"] = dict(scn.get("observed") or {}, history="holds on the first execution in a fresh process, violated on the second identical one")
                    write_replay(mod, scn, len(reported))
        if not ok:
            unreproduced.append(
                f"replay {path} did not reproduce in a fresh interpreter "
                f"(rc={proc.returncode}) stdout={proc.stdout[-500:]} stderr={proc.stderr[-500:]}"
            )
            continue
        reported[key] = path
        print(f"VIOLATION property={mod.PROPERTY} replay={path}")
        print(f"  clause={scn['clause']} detail={str(scn['observed']['detail'])[:300]}")
        exit_code = 1
    for sig, k in known_open.items():
        # listed findings are printed on every run (they are facts about the unchanged tree)
        print(f"KNOWN-FINDING: property={mod.PROPERTY} {k.get('what', sig)} [met {known_hits.get(sig, 0)}x in this run]")
    n_viol = len([r for r in reported.values() if r])

    # ---- evidence
    ev = {
        "property_id": mod.PROPERTY,
        "tier": tier,
        "seed": base_seed,
        "level": mod.LEVEL,
        "coverage": {
            "evaluations": total.evaluations,
            "distinct_nontrivial": len(total.nontrivial),
            "rule": mod.RULE,
            "samples": total.samples[:5],
            "exhaustive": bool(getattr(mod, "EXHAUSTIVE", {}).get(tier, False)),
            "runs": total.runs,
            "batches": n_batches,
            "distinct_event_logs": len(total.digests),
            "runs_per_hour": int(total.runs / wall * 3600) if wall > 0 else 0,
            "evaluations_per_hour": int(total.evaluations / wall * 3600) if wall > 0 else 0,
            "simulated_seconds": round(total.sim_seconds, 3),
            "faults_fired": {k[6:]: v for k, v in sorted(total.counters.items()) if k.startswith("fault_")},
            "probes": {k: v for k, v in sorted(total.counters.items()) if not k.startswith("fault_")},
            "skipped_base_failed": total.skipped_base_failed,
            "regressions_run": n_reg,
            "real_vs_stub": mod.REAL_VS_STUB,
            "workers": NPROC,
            "seeds": {"VERIF_SEED": base_seed, "run_seed_formula": "VERIF_SEED * 100000007 + i", "scenarios": total.runs},
            "determinism_checked": det,
            "python_O_slice": opt,
            "debug_logging_slice": dbg,
        },
        "assumptions": mod.ASSUMPTIONS,
        "wall_s": round(wall, 2),
        "violations": n_viol,
    }
    for name, ctr in total.extra.items():
        if name != "_meta":
            ev["coverage"][name] = dict(sorted(ctr.items()))
    if hasattr(mod, "finish_evidence"):
        mod.finish_evidence(ev, total, tier)
    zero = [k for k in getattr(mod, "EXPECTED_PROBES", {}).get(tier, ()) if not total.counters.get(k)]
    if zero:
        ev["coverage"]["probes_at_zero"] = zero
        if not quiet:
            print(f"WARNING: probes at zero: {zero}")
    if total.extra.get("_meta", {}).get("digest_cap_reached"):
        ev["coverage"]["distinct_counts_are_lower_bounds"] = f"digest store capped at {DIGEST_CAP}"
    if known_open:
        ev["coverage"]["known_findings_met"] = {sig: known_hits.get(sig, 0) for sig in known_open}
    if unreproduced and exit_code == 0:
        # nothing that was found could be shown again from its replay file: the run decides nothing
        harness_error = harness_error or unreproduced[0]
    elif unreproduced:
        # other violations of this run did reproduce and are reported; these depended on what the worker
        # had executed before (library state carried between scenarios) in a way `repeat` does not recreate
        ev_note = f"{len(unreproduced)} further violation(s) seen by a worker did not reproduce from their replay files"
        print("NOTE: " + ev_note, file=sys.stderr)
    if harness_error:
        ev["coverage"]["harness_error"] = harness_error
    edir = os.environ.get("VERIF_EVIDENCE_DIR") or os.path.join(core.VERIF_DIR, "evidence")
    os.makedirs(edir, exist_ok=True)
    with open(os.path.join(edir, f"{mod.PROPERTY}.json"), "w", encoding="utf-8") as fh:
        json.dump(core.jsonable(ev), fh, indent=1, sort_keys=True)
    if not quiet:
        print(
            f"{mod.PROPERTY} {tier}: runs={total.runs} evaluations={total.evaluations} "
            f"distinct_logs={len(total.digests)} nontrivial={len(total.nontrivial)} "
            f"violations={n_viol} skipped={total.skipped_base_failed} wall={wall:.1f}s"
        )
    if harness_error:
        print(f"HARNESS-ERROR: {harness_error}", file=sys.stderr)
        return 2
    return exit_code
