"""
Delivery schedules: how a wire is split into arrival segments at virtual times, and
classification of byte offsets relative to the frames the simulator put on the wire.
"""

from sim.link import frame_bytes

BUFSIZES = (1, 2, 3, 5, 8, 16, 64, 1024, 4096)


def pos_class(spans, off: int) -> str:
    """Class of a boundary placed *before* byte `off` (so off == frame start => boundary)."""
    for start, end, fr in spans:
        if off == start:
            return "frame_boundary"
        if start < off < end:
            rel = off - start
            kind = fr.get("kind")
            n = end - start
            if kind == "ubx":
                if rel < 2:
                    return "ubx_sync"
                if rel < 4:
                    return "ubx_clsid"
                if rel < 6:
                    return "ubx_length"
                if rel < n - 2:
                    return "ubx_payload"
                return "ubx_checksum"
            if kind == "nmea":
                if rel < 2:
                    return "nmea_hdr"
                if rel >= n - 2:
                    return "nmea_crlf"
                return "nmea_body"
            if kind == "rtcm":
                if rel < 3:
                    return "rtcm_hdr"
                if rel >= n - 3:
                    return "rtcm_crc"
                return "rtcm_payload"
            return "in_" + str(kind)
    return "frame_boundary" if spans and off == spans[-1][1] else "outside"


def interesting_offsets(spans):
    """Offsets where a chunk boundary or cut is most likely to expose a bug."""
    out = set()
    for start, end, fr in spans:
        n = end - start
        kind = fr.get("kind")
        for rel in (0, 1, 2, 3, 4, 5, 6, 7, n - 3, n - 2, n - 1, n):
            if 0 <= rel <= n:
                out.add(start + rel)
        if kind == "nmea":
            out.add(end - 1)
            out.add(end - 2)
    return sorted(out)


def random_segments(rng, wire_len: int, spans=None, style=None):
    """
    Split [0, wire_len) into arrival segments.  Returns list of sizes (sum == wire_len).
    Styles: single, bytewise, uniform-random, biased (boundaries near interesting offsets),
    frame-aligned, frame-straddling.
    """
    if wire_len == 0:
        return []
    style = style or rng.choice(("single", "bytewise", "uniform", "biased", "biased", "aligned", "few"))
    cuts = set()
    if style == "single":
        pass
    elif style == "bytewise":
        cuts = set(range(1, wire_len))
    elif style == "uniform":
        p = rng.choice((0.02, 0.1, 0.3, 0.6))
        cuts = {i for i in range(1, wire_len) if rng.random() < p}
    elif style == "few":
        for _ in range(rng.randrange(1, 4)):
            cuts.add(rng.randrange(1, wire_len) if wire_len > 1 else 0)
    elif style == "aligned" and spans:
        cuts = {s for s, _, _ in spans if 0 < s < wire_len}
        if rng.random() < 0.5:  # straddle: shift every boundary by a small amount
            d = rng.choice((-2, -1, 1, 2, 3))
            cuts = {min(max(c + d, 1), wire_len - 1) for c in cuts} if wire_len > 1 else set()
    else:
        cand = [o for o in (interesting_offsets(spans) if spans else []) if 0 < o < wire_len]
        k = rng.randrange(1, 8)
        for _ in range(k):
            if cand and rng.random() < 0.8:
                cuts.add(rng.choice(cand))
            elif wire_len > 1:
                cuts.add(rng.randrange(1, wire_len))
    cuts.discard(0)
    cuts.discard(wire_len)
    pts = [0] + sorted(cuts) + [wire_len]
    return [b - a for a, b in zip(pts, pts[1:]) if b > a]


def timed_segments(rng, sizes, timeout=None, coalesce_p=None):
    """
    Attach virtual arrival times to segment sizes.  Gaps are 0 (segments arrive together and
    coalesce in the receive buffer) with probability coalesce_p, else a positive gap that is
    always shorter than `timeout` (no mid-stream timeout).
    """
    coalesce_p = rng.choice((0.0, 0.2, 0.5, 0.9)) if coalesce_p is None else coalesce_p
    max_gap = 0.5 if timeout is None else min(0.5, timeout * 0.5)
    t = 0.0
    out = []
    for n in sizes:
        if out and rng.random() >= coalesce_p:
            if timeout is None and rng.random() < 0.3:
                # a blocking socket waits as long as it takes: pauses of any length are legal
                t = round(t + rng.choice((0.6, 1.5, 5.0, 60.0)), 6)
            else:
                t = round(t + rng.choice((0.001, 0.01, 0.1, 1.0)) * max_gap, 6)
        out.append([t, n])
    return out


def all_segmentations(wire_len: int):
    """Every composition of wire_len (2^(n-1) of them) as size lists."""
    if wire_len == 0:
        yield []
        return
    for mask in range(1 << (wire_len - 1)):
        sizes, cur = [], 1
        for i in range(wire_len - 1):
            if mask >> i & 1:
                sizes.append(cur)
                cur = 1
            else:
                cur += 1
        sizes.append(cur)
        yield sizes


def spans_of(frames):
    out, off = [], 0
    for f in frames:
        n = len(frame_bytes(f))
        out.append((off, off + n, f))
        off += n
    return out
