"""
Simulated peers (workload): GNSS receiver (UBX + NMEA), RTCM3 caster, host, garbage source.

The library's tables are used only as a *catalogue of what to send* (class/ids, nominal
sizes) - never as an oracle.  Every draw comes from the PRNG handed in.
"""

from sim import wire

_BITFIELD_TYPES = ("X001", "X002", "X004", "X006", "X008", "X024")

_CAT = None


def _attsiz(att: str) -> int:
    if att == "CH":
        return 8
    return int(att[1:4])


def def_len(pdict: dict, repeats: int) -> int:
    """Byte length a payload definition implies with `repeats` items in variable groups."""
    total = 0
    for _, val in pdict.items():
        if isinstance(val, tuple):
            numr, sub = val
            if numr in _BITFIELD_TYPES:
                total += _attsiz(numr)
            else:
                cnt = numr if isinstance(numr, int) else repeats
                total += cnt * def_len(sub, repeats)
        elif isinstance(val, list):
            total += _attsiz(val[0])
        else:
            total += _attsiz(val)
    return total


def _array_offsets(pdict: dict):
    """Offsets (start, size) of long A-arrays (r=1 layout) - interesting truncation points."""
    out = []
    off = 0
    for _, val in pdict.items():
        if isinstance(val, tuple):
            numr, sub = val
            if numr in _BITFIELD_TYPES:
                off += _attsiz(numr)
            else:
                cnt = numr if isinstance(numr, int) else 1
                for _ in range(cnt):
                    for s, n in _array_offsets(sub):
                        out.append((off + s, n))
                    off += def_len(sub, 1)
        else:
            typ = val[0] if isinstance(val, list) else val
            if typ[0] == "A":
                out.append((off, _attsiz(typ)))
            off += _attsiz(typ)
    return out


def catalogue():
    """
    [{cls, mid, name, typ (MGA type byte or None), lens [nominal lengths], arrays [(off,n)],
      modes [0/1/2 the name is defined in]}]  in table order.
    """
    global _CAT  # pylint: disable=global-statement
    if _CAT is not None:
        return _CAT
    from pyubx2 import (  # pylint: disable=import-outside-toplevel
        UBX_MSGIDS,
        UBX_PAYLOADS_GET,
        UBX_PAYLOADS_POLL,
        UBX_PAYLOADS_SET,
    )

    tables = ((0, UBX_PAYLOADS_GET), (1, UBX_PAYLOADS_SET), (2, UBX_PAYLOADS_POLL))
    cat = []
    for key, name in UBX_MSGIDS.items():
        lens, arrays, modes = set(), [], []
        for mode, tab in tables:
            for dname, pdict in tab.items():
                if dname == name or dname.startswith(name + "-") or dname.startswith(name + "v"):
                    if mode not in modes:
                        modes.append(mode)
                    for r in (0, 1, 2, 3):
                        lens.add(def_len(pdict, r))
                    arrays.extend(_array_offsets(pdict))
        cat.append(
            {
                "cls": key[0],
                "mid": key[1],
                "typ": key[2] if len(key) > 2 else None,
                "name": name,
                "lens": sorted(lens) or [0],
                "arrays": sorted(set(arrays)),
                "modes": modes,
            }
        )
    _CAT = cat
    return cat


# ------------------------------------------------------------------------------------
# UBX
# ------------------------------------------------------------------------------------

PAYLOAD_STYLES = ("zeros", "ff", "counter", "small", "random")


def payload_bytes(rng, n: int, style: str) -> bytes:
    if n <= 0:
        return b""
    if style == "zeros":
        return bytes(n)
    if style == "ff":
        return b"\xff" * n
    if style == "counter":
        s = rng.randrange(256)
        return bytes((s + i) & 0xFF for i in range(n))
    if style == "small":
        return bytes(rng.choice((0, 0, 1, 1, 2, 3)) for _ in range(n))
    return bytes(rng.getrandbits(8) for _ in range(n))


def pick_length(rng, entry, variant_fault: bool) -> int:
    """A payload length for a catalogue entry; variant_fault = firmware-variant lengths."""
    lens = entry["lens"]
    base = rng.choice(lens)
    if not variant_fault:
        return base
    mode = rng.randrange(8)
    if mode == 0:
        return rng.choice((0, 1, 2, 3))
    if mode == 1:
        return max(0, base - rng.choice((1, 2, 3, 4)))
    if mode == 2:
        return base + rng.choice((1, 2, 3, 4, 8))
    if mode == 3 and entry["arrays"]:
        off, n = rng.choice(entry["arrays"])
        return off + rng.randrange(0, n + 1)
    if mode == 4:
        return rng.randrange(0, max(lens) + 12)
    if mode == 5:
        return max(0, base // 2)
    return base


def ubx_from_entry(rng, entry, variant_fault=False, style=None, serial=None):
    """(frame bytes, note) for a catalogue entry."""
    n = pick_length(rng, entry, variant_fault)
    style = style or rng.choice(PAYLOAD_STYLES)
    pl = bytearray(payload_bytes(rng, n, style))
    if entry["typ"] is not None and n >= 1:
        pl[0] = entry["typ"]
    elif n >= 2 and rng.random() < 0.3:
        # version / type discriminators live in the first two bytes of variant messages
        pl[0] = rng.choice((0, 1, 2, 0xFF))
        pl[1] = rng.choice((0, 1, 2, 0xFF))
    if serial is not None and n >= 6 and rng.random() < 0.7:
        pl[-2:] = (serial & 0xFFFF).to_bytes(2, "little")
    frame = wire.ubx_frame(entry["cls"], entry["mid"], bytes(pl))
    return frame, f"{entry['name']} len={n} {style}"


def ubx_unknown(rng, serial=None):
    """Frame with a class/id the table does not list."""
    known = {(e["cls"], e["mid"]) for e in catalogue()}
    while True:
        cls, mid = rng.randrange(256), rng.randrange(256)
        if rng.random() < 0.5:
            cls = rng.choice((0x01, 0x02, 0x06, 0x0A, 0x13, 0x66))
        if (cls, mid) not in known:
            break
    n = rng.choice((0, 1, 2, 4, 8, 17, 40))
    if rng.random() < 0.15:
        # lengths on and around the byte boundary of the 16-bit length field / 256-byte blocks
        n = rng.choice((251, 252, 253, 254, 255, 256, 257, 508, 511, 512, 513, 1020, 1024))
    pl = bytearray(payload_bytes(rng, n, rng.choice(PAYLOAD_STYLES)))
    if serial is not None and n >= 4:
        pl[-2:] = (serial & 0xFFFF).to_bytes(2, "little")
    return wire.ubx_frame(cls, mid, bytes(pl)), f"UNKNOWN {cls:02x}{mid:02x} len={n}"


def ubx_any(rng, variant_fault=False, serial=None, modes=None):
    """Any UBX frame: mostly catalogue entries (optionally restricted to modes), some unknown."""
    if rng.random() < 0.09:
        return ubx_unknown(rng, serial)
    cat = catalogue()
    for _ in range(20):
        e = rng.choice(cat)
        if modes is None or any(m in e["modes"] for m in modes):
            break
    return ubx_from_entry(rng, e, variant_fault, serial=serial)


# a few frames worth sending often (short, common, ACK/poll-like)
COMMON_UBX = [
    (0x05, 0x01, bytes.fromhex("0601")),  # ACK-ACK
    (0x05, 0x00, bytes.fromhex("0601")),  # ACK-NAK
    (0x0A, 0x04, b""),  # MON-VER poll
    (0x06, 0x00, b""),  # CFG-PRT poll
    (0x01, 0x21, bytes(20)),  # NAV-TIMEUTC
    (0x01, 0x04, bytes(18)),  # NAV-DOP
    (0x01, 0x12, bytes(36)),  # NAV-VELNED
    (0x06, 0x01, bytes.fromhex("f00401")),  # CFG-MSG (3 byte set)
    (0x06, 0x01, bytes.fromhex("f004")),  # CFG-MSG poll
    (0x04, 0x02, b"simulated notice"),  # INF-NOTICE
]


def ubx_ref(rng):
    """
    Frames whose payload NAMES another message (ACK-ACK / ACK-NAK clsID+msgID, CFG-MSG
    msgClass+msgID): the reference is drawn from every class byte of the catalogue (and a few
    unknown ones) x known and unknown ids - str() resolves these references to names.
    """
    cat = catalogue()
    classes = sorted({e["cls"] for e in cat}) + [0x00, 0x77, 0xFF, 0xF0, 0xF1, 0xF5]
    rcls = rng.choice(classes)
    ids = [e["mid"] for e in cat if e["cls"] == rcls]
    rid = rng.choice(ids) if ids and rng.random() < 0.5 else rng.randrange(256)
    kind = rng.randrange(5)
    if kind == 0:
        return wire.ubx_frame(0x05, 0x01, bytes((rcls, rid))), f"ACK-ACK ref {rcls:02x}{rid:02x}"
    if kind == 1:
        return wire.ubx_frame(0x05, 0x00, bytes((rcls, rid))), f"ACK-NAK ref {rcls:02x}{rid:02x}"
    if kind == 2:
        return wire.ubx_frame(0x06, 0x01, bytes((rcls, rid))), f"CFG-MSG poll ref {rcls:02x}{rid:02x}"
    if kind == 3:
        return wire.ubx_frame(0x06, 0x01, bytes((rcls, rid, rng.randrange(4)))), f"CFG-MSG set3 ref {rcls:02x}{rid:02x}"
    return wire.ubx_frame(0x06, 0x01, bytes((rcls, rid)) + bytes(rng.randrange(3) for _ in range(6))), f"CFG-MSG set8 ref {rcls:02x}{rid:02x}"


def ubx_common(rng, serial=None):
    if rng.random() < 0.3:
        return ubx_ref(rng)
    cls, mid, pl = rng.choice(COMMON_UBX)
    pl = bytearray(pl)
    if serial is not None and len(pl) >= 16:
        pl[-2:] = (serial & 0xFFFF).to_bytes(2, "little")
    return wire.ubx_frame(cls, mid, bytes(pl)), f"common {cls:02x}{mid:02x} len={len(pl)}"


# ------------------------------------------------------------------------------------
# NMEA
# ------------------------------------------------------------------------------------

_NMEA_FIRST = None

_NMEA_TEMPLATES = [
    b"GGA,{t},{lat},N,{lon},W,1,{n},1.2,{alt},M,47.9,M,,",
    b"GLL,{lat},N,{lon},W,{t},A,A",
    b"GSA,A,3,{n},23,,,,,,,,,,,2.1,1.2,1.7,1",
    b"GSV,3,1,{n},01,40,083,46,02,17,308,41,12,07,344,39,14,22,228,45,1",
    b"RMC,{t},A,{lat},N,{lon},W,0.046,,060321,,,A,V",
    b"VTG,,T,,M,0.046,N,0.085,K,A",
    b"ZDA,{t},06,03,2021,00,00",
    b"TXT,01,01,02,sim {n}",
    b"DTM,W84,,0.0,N,0.0,E,0.0,W84",
    b"GNS,{t},{lat},N,{lon},W,AANN,{n},1.0,{alt},47.9,,,V",
    b"GBS,{t},1.4,1.3,3.1,03,,-21.4,3.8,1,0",
    b"THS,{alt},A",
    b"XYZ,{n},{t}",
    b"QQQ",
]
_NMEA_PROP = [
    b"PUBX,00,{t},{lat},N,{lon},W,{alt},G3,2,2,0.0,0.0,0.0,,1.0,1.0,1.0,{n},0,0",
    b"PUBX,04,{t},060321,{n},2148,18,0,0,16",
    b"PUBX,40,GLL,0,{n},0,0,0,0",
    b"PUBX,41,1,0007,0003,19200,0",
    b"PGRME,15.0,M,45.0,M,25.0,M",
    b"PZZZ,{n}",
    b"PASHR,{t},{alt},T,1.0,2.0,3.0,0.1,0.1,0.1,2,1",
    b"PASHR,POS,0,{n},{t},{lat},N,{lon},W,{alt},,0.0,0.0,0.0,1.0,1.0,1.0,1.0,ABCD",
    b"PTNL,GGK,{t},060321,{lat},N,{lon},W,3,{n},1.7,EHT{alt},M",
    b"PSSN,HRP,{t},060321,{alt},1.0,2.0,0.1,0.1,0.1,{n},1,1",
    b"PFEC,GPatt,{alt},1.0,2.0",
    b"PGPPADV,110,{lat},{lon},{alt}",
    b"PQTMVERNO,SIM{n},2021/03/06,{t}",
    b"PSTI,030,{t},A,{lat},N,{lon},W,{alt},0.0,0.0,0.0,060321,A,1.0,1.0",
]


def nmea_first_letters():
    """First talker letters the reader recognises after '$' (catalogue from pynmeagps)."""
    global _NMEA_FIRST  # pylint: disable=global-statement
    if _NMEA_FIRST is None:
        from pynmeagps import NMEA_HDR  # pylint: disable=import-outside-toplevel

        _NMEA_FIRST = sorted(h[1:2] for h in NMEA_HDR)
    return _NMEA_FIRST


def nmea_long(rng):
    """Legal sentences far beyond 82 characters (u-blox PUBX,03 lists up to ~50 satellites; long TXT)."""
    if rng.random() < 0.6:
        nsv = rng.choice((12, 20, 28, 36, 50, 90))
        sats = b",".join(b"%d,%s,%03d,%02d,%02d,%03d" % (i + 1, rng.choice((b"U", b"e", b"-")), rng.randrange(360), rng.randrange(90), rng.randrange(50), rng.randrange(64)) for i in range(nsv))
        content = b"PUBX,03,%d," % nsv + sats
    else:
        content = b"GNTXT,01,01,02," + bytes(rng.choice(b"ABCDEFGHIJKLMNOPQRSTUVWXYZ0123456789 ") for _ in range(rng.choice((100, 300, 520, 1100, 2300))))
    return wire.nmea_sentence(content), f"nmea long {len(content)}"


def nmea_runaway(rng):
    """A recognised NMEA header followed by a long stretch without LF (a binary blob after a stray '$G'), then LF."""
    n = rng.choice((300, 600, 2100, 4200, 9000))
    alpha = bytes(b for b in range(256) if b != 0x0A)
    first = rng.choice(nmea_first_letters())
    return b"$" + first + bytes(rng.choice(alpha) for _ in range(n)) + b"\n", f"runaway line {n}"


TEXT_PREAMBLES = (
    b"ICY 200 OK\r\n\r\n",
    b"HTTP/1.1 200 OK\r\nNtrip-Version: Ntrip/2.0\r\nContent-Type: gnss/data\r\n\r\n",
    b"SOURCETABLE 200 OK\r\nServer: sim\r\n\r\nENDSOURCETABLE\r\n",
    b"\r\n\r\n",
    b"u-blox AG - www.u-blox.com\r\nHW UBX-M8030 00080000\r\n\r\n",
    b"AT+CGNSINF\r\r\n+CGNSINF: 1,1\r\n\r\nOK\r\n",
)


def text_preamble(rng):
    """Text that precedes or interrupts GNSS data on real links (NTRIP/HTTP response headers, boot banners, modem chatter)."""
    return rng.choice(TEXT_PREAMBLES), "text preamble"


def nmea_any(rng, serial=None):
    """(sentence bytes, note). Always LF-terminated, no LF inside, '$'+recognised letter."""
    if rng.random() < 0.03:
        return nmea_long(rng)
    firsts = nmea_first_letters()
    if rng.random() < 0.02:
        # degenerate but LF-terminated lines behind a recognised header
        first = rng.choice(firsts)
        return b"$" + first + rng.choice((b"\n", b"\r\n", b"P\r\n", b"PG\n", b"*\r\n", b",\r\n", b"*00\r\n")), "nmea degenerate short line"
    if rng.random() < 0.2:
        tmpl = rng.choice(_NMEA_PROP)
        if b"P" not in firsts:
            tmpl = firsts[0] + tmpl[1:]
        head = b""
    else:
        tmpl = rng.choice(_NMEA_TEMPLATES)
        t1 = rng.choice([f for f in firsts if f != b"P"] or firsts)
        if rng.random() < 0.8:
            t2 = rng.choice((b"P", b"N", b"L", b"A", b"B", b"Q", b"D", b"I"))
            cands = [t for t in (b"GP", b"GN", b"GL", b"GA", b"GB", b"GQ", b"BD", b"GI") if t[0:1] in firsts]
            head = rng.choice(cands) if cands else t1 + t2
        else:
            head = t1 + bytes((rng.choice(b"ABCDEFGHIJKLMNOPQRSTUVWXYZ"),))
    n = serial if serial is not None else rng.randrange(100)
    fields = {
        b"{t}": b"%02d%02d%02d.00" % (rng.randrange(24), rng.randrange(60), rng.randrange(60)),
        b"{lat}": b"%04d.%05d" % (rng.randrange(9000), rng.randrange(100000)),
        b"{lon}": b"%05d.%05d" % (rng.randrange(18000), rng.randrange(100000)),
        b"{alt}": b"%d.%d" % (rng.randrange(9000), rng.randrange(10)),
        b"{n}": b"%02d" % (n % 100),
    }
    body = tmpl
    for k, v in fields.items():
        body = body.replace(k, v)
    content = head + body
    oddity = rng.random()
    note = "nmea " + content[:8].decode("ascii", "replace")
    if oddity < 0.05:  # odd field content
        content += b"," + bytes(rng.choice(b"abcXYZ019-.") for _ in range(rng.randrange(1, 6)))
        note += " +oddfield"
    elif oddity < 0.08:  # non-ASCII bytes (never LF)
        pos = rng.randrange(3, len(content) + 1)
        content = content[:pos] + bytes((rng.choice((0x80, 0xB5, 0xD3, 0xFF, 0x00, 0x24)),)) + content[pos:]
        note += " +nonascii"
    elif oddity < 0.095:  # valid multi-byte UTF-8 (degree sign, micro sign, accented letter) in header, body or checksum field
        ch = rng.choice((b"\xc2\xb0", b"\xc2\xb5", b"\xc3\xa9", b"\xe2\x82\xac"))
        where = rng.randrange(3)
        if where == 0:
            content = content[:2] + ch + content[2:]
        elif where == 1:
            pos = rng.randrange(3, len(content) + 1)
            content = content[:pos] + ch + content[pos:]
        else:
            return b"$" + content + b"*" + ch + b"\r\n", note + " +utf8 in checksum"
        note += " +utf8"
        if rng.random() < 0.5:  # and rejected: the rejection's text quotes the odd characters
            return b"$" + content + b"*00\r\n", note + " badck"
    elif oddity < 0.10:  # empty most fields
        parts = content.split(b",")
        content = b",".join(parts[:1] + [b"" for _ in parts[1:]])
        note += " +emptyfields"
    elif oddity < 0.18:  # firmware variant: fewer fields than the definition (checksum valid)
        parts = content.split(b",")
        keep = rng.randrange(1, len(parts) + 1)
        content = b",".join(parts[:keep])
        if rng.random() < 0.3:
            content += b","
        note += f" +fields_cut@{keep}"
    elif oddity < 0.22:  # firmware variant: more fields than the definition
        content += b"," + b",".join(rng.choice((b"", b"1", b"A", b"1.5")) for _ in range(rng.randrange(1, 6)))
        note += " +extrafields"
    elif oddity < 0.24:  # a field shortened to 0-1 characters
        parts = content.split(b",")
        if len(parts) > 1:
            i = rng.randrange(1, len(parts))
            parts[i] = parts[i][: rng.randrange(0, 2)]
            content = b",".join(parts)
        note += " +shortfield"
    if rng.random() < 0.06:
        s = b"$" + content + b"*" + rng.choice((b"00", b"ZZ", b"7", b"")) + b"\r\n"
        return s, note + " badck"
    if rng.random() < 0.03:
        return b"$" + content + b"\r\n", note + " nostar"
    if rng.random() < 0.03:
        return b"$" + content + b"*" + wire.nmea_cksum(content) + b"\n", note + " lfonly"
    if rng.random() < 0.03:
        # a capture that went through a text-mode conversion, or a padded terminator: still one LF-terminated line
        term = rng.choice((b"\r\r\n", b"\r\r\n", b" \r\n", b"\r\r\r\n", b"\t\r\n"))
        return b"$" + content + b"*" + wire.nmea_cksum(content) + term, note + " odd terminator"
    return wire.nmea_sentence(content), note


def nmea_quoted_in_rejection(rng):
    """
    A sentence the NMEA parser rejects with a text that quotes what stood on the wire: valid multi-byte
    UTF-8 in the sentence id or in the checksum field, wrong checksum.  (A receiver sending Latin-1 or
    UTF-8 text in proprietary sentences, or line noise that happens to be valid UTF-8.)
    """
    ch = rng.choice((b"\xc2\xb0", b"\xc2\xb5", b"\xc3\x84", b"\xc3\xa9", b"\xe2\x82\xac", b"\xf0\x9f\x9b\xb0"))
    first = rng.choice(nmea_first_letters())
    body = rng.choice((b",172809.456,12,07,1996,00,00", b",1,2,3", b"", b",A"))
    style = rng.randrange(3)
    if style == 0:
        content = first + b"PZD" + ch + body
        return b"$" + content + b"*00\r\n", "nmea utf8 in id, wrong checksum"
    if style == 1:
        content = first + b"PGLL" + body
        return b"$" + content + b"*" + ch + b"\r\n", "nmea utf8 as checksum"
    content = first + b"P" + ch + b"A" + body + b"," + ch
    return b"$" + content + b"*" + rng.choice((b"00", b"FF", b"5")) + b"\r\n", "nmea utf8 in id and field, wrong checksum"


# ------------------------------------------------------------------------------------
# RTCM3
# ------------------------------------------------------------------------------------

_RTCM_TYPES = (
    1001, 1002, 1003, 1004, 1005, 1006, 1007, 1008, 1009, 1010, 1012, 1019, 1020, 1033,
    1042, 1044, 1045, 1046, 1074, 1077, 1084, 1087, 1094, 1097, 1124, 1127, 1230, 4072,
    999, 0, 4095, 1059, 1060, 1066, 1243, 1261,
)
_RTCM_REAL = [
    bytes.fromhex("3ed7d30202980edeef34b4bd62ac0941986f33"),
    bytes.fromhex("3ed000038a58d9493c872f34109d07d6af4820"),
    bytes.fromhex("429181c984000442b8880038800009d046002800"[:36]),
]


def rtcm_any(rng, serial=None, allow_empty=True):
    """(frame bytes, note)."""
    roll = rng.random()
    if roll < 0.2:
        body = bytearray(rng.choice(_RTCM_REAL))
        if serial is not None:
            body[-2:] = (serial & 0xFFFF).to_bytes(2, "little")
        return wire.rtcm_frame(bytes(body)), f"rtcm real len={len(body)}"
    if roll < 0.3 and allow_empty:
        return wire.rtcm_frame(b""), "rtcm empty"
    t = rng.choice(_RTCM_TYPES)
    n = rng.choice((1, 2, 3, 5, 8, 13, 19, 21, 30, 60, 120, 300))
    if rng.random() < 0.12:
        # sizes on and around the byte boundaries of the 10-bit length field
        n = rng.choice((254, 255, 256, 257, 258, 511, 512, 513, 767, 768, 769, 1022, 1023))
    body = bytearray(rng.getrandbits(8) for _ in range(n))
    if n >= 2:
        body[0] = (t >> 4) & 0xFF
        body[1] = ((t & 0xF) << 4) | (body[1] & 0xF)
    if serial is not None and n >= 8:
        body[-2:] = (serial & 0xFFFF).to_bytes(2, "little")
    return wire.rtcm_frame(bytes(body)), f"rtcm {t} len={n}"


# ------------------------------------------------------------------------------------
# noise / garbage / carriers
# ------------------------------------------------------------------------------------

FRAME_ALPHABET = bytes.fromhex("b562244750d3000102030a0d2aff")
NOISE_ALPHABET_SAFE = bytes(b for b in range(256) if b not in (0xB5, 0x24, 0xD3))


def noise_safe(rng, n=None):
    """Noise without any frame-start byte (C06)."""
    n = rng.choice((1, 1, 2, 3, 5, 9, 17)) if n is None else n
    style = rng.randrange(3)
    if style == 0:
        alpha = bytes(b for b in FRAME_ALPHABET if b not in (0xB5, 0x24, 0xD3))
    elif style == 1:
        alpha = NOISE_ALPHABET_SAFE
    else:
        alpha = b"\x62\x0a\x0d\x00\x47"
    return bytes(rng.choice(alpha) for _ in range(n))


def garbage(rng, n=None, alphabet=None):
    """Arbitrary bytes over a swarm-chosen alphabet."""
    if n is None:
        n = rng.choice((0, 1, 2, 3, 4, 5, 6, 8, 12, 20, 40, 80))
    if alphabet is None:
        k = rng.randrange(4)
        if k == 0:
            alphabet = FRAME_ALPHABET
        elif k == 1:
            alphabet = bytes(range(256))
        elif k == 2:
            alphabet = bytes.fromhex("b56224d30000010a")
        else:
            alphabet = bytes.fromhex("b5622447d300030a2a")
    return bytes(rng.choice(alphabet) for _ in range(n))


def carrier(rng, serial=None):
    """A frame of one protocol whose payload carries a complete frame of another (C11)."""
    inner_kind = rng.choice(("ubx", "nmea", "rtcm"))
    if inner_kind == "ubx":
        inner, _ = ubx_common(rng, serial)
    elif inner_kind == "nmea":
        inner, _ = nmea_any(rng, serial)
    else:
        inner, _ = rtcm_any(rng, serial)
    outer_kind = rng.choice([k for k in ("ubx", "nmea", "rtcm") if k != inner_kind])
    pad_a = bytes(rng.getrandbits(8) for _ in range(rng.randrange(0, 5)))
    pad_b = bytes(rng.getrandbits(8) for _ in range(rng.randrange(0, 5)))
    if outer_kind == "ubx":
        cls, mid = rng.choice(((0x02, 0x13), (0x01, 0x07), (0x66, 0x01), (0x0A, 0x04), (0x04, 0x02)))
        frame = wire.ubx_frame(cls, mid, pad_a + inner + pad_b)
    elif outer_kind == "rtcm":
        frame = wire.rtcm_frame((b"\x3e\xd0" + pad_a + inner + pad_b)[:1023])
    else:
        body = (b"GNTXT,01,01,02," + inner.replace(b"\n", b" ").replace(b"*", b"+"))
        frame = wire.nmea_sentence(body)
    return frame, outer_kind, f"carrier {outer_kind}[{inner_kind}]"


def frame_any(rng, serial=None, mix=None, variant_fault=False, modes=None):
    """
    One frame from the three sources.  Returns (kind, bytes, note).
    mix = weights dict over {"ubx","ubxc","nmea","rtcm"} (ubxc = short common frames).
    """
    mix = mix or {"ubx": 3, "ubxc": 3, "nmea": 3, "rtcm": 3}
    kinds = list(mix)
    k = rng.choices(kinds, weights=[mix[x] for x in kinds])[0]
    if k == "ubx":
        b, note = ubx_any(rng, variant_fault=variant_fault, serial=serial, modes=modes)
        return "ubx", b, note
    if k == "ubxc":
        b, note = ubx_common(rng, serial)
        return "ubx", b, note
    if k == "nmea":
        b, note = nmea_any(rng, serial)
        return "nmea", b, note
    b, note = rtcm_any(rng, serial)
    return "rtcm", b, note


def long_run(rng, n=None, styles=None):
    """
    A long homogeneous stretch of stream (>= 1000 tiny frames or several thousand noise bytes):
    what a reader meets when a whole protocol it filters out is streaming, or a link is idle/noisy.
    Returns (list of (kind, bytes, note)).
    """
    n = n or rng.choice((1100, 1600, 2600))
    style = rng.choice(styles or ("nmea", "ubx", "rtcm", "alternate", "bad_ubx", "bad_nmea", "unknown_hdr", "noise", "rtcm_bad"))
    tiny = {
        "nmea": ("nmea", b"$GPQQQ*46\r\n"),
        "ubx": ("ubx", wire.ubx_frame(0x05, 0x01, b"\x06\x01")),
        "rtcm": ("rtcm", wire.rtcm_frame(bytes.fromhex("3ed00003"))),
        "bad_ubx": ("ubx", wire.ubx_frame(0x05, 0x01, b"\x06\x01")[:-1] + b"\x00"),
        "bad_nmea": ("nmea", b"$GPQQQ*00\r\n"),
        "rtcm_bad": ("rtcm", wire.rtcm_frame(b"")),
    }
    out = []
    if style in tiny:
        k, b = tiny[style]
        out = [(k, b, f"long run {style}")] * n
    elif style == "alternate":
        a, b = rng.sample(sorted(tiny), 2)
        for i in range(n):
            k, fb = tiny[a if i % 2 == 0 else b]
            out.append((k, fb, f"long run {a}/{b}"))
    elif style == "unknown_hdr":
        out = [("garbage", bytes((rng.choice((0xB5, 0x24, 0xD3)), rng.choice((0x00, 0xFF, 0x7F)))), "unknown header pair")] * n
    else:
        out = [("garbage", bytes(rng.choice(NOISE_ALPHABET_SAFE) for _ in range(4 * n)), "noise run")]
    tail = rng.choice(("nmea", "ubx", "rtcm"))
    out.append((tiny[tail][0], tiny[tail][1], "tail frame"))
    return out, style


def giant_run(rng):
    """
    More back-to-back tiny frames of one kind than a 16-bit counter holds, then one frame of another
    protocol: (kind, one frame's bytes, count, style, tail kind, tail bytes).  A receiver streaming one
    protocol for an hour, read by an application that filters it out or rejects it.
    """
    tiny = {
        "nmea": ("nmea", b"$GPQQQ*46\r\n"),
        "ubx": ("ubx", wire.ubx_frame(0x05, 0x01, b"\x06\x01")),
        "rtcm": ("rtcm", wire.rtcm_frame(bytes.fromhex("3ed00003"))),
        "bad_ubx": ("ubx", wire.ubx_frame(0x05, 0x01, b"\x06\x01")[:-1] + b"\x00"),
        "bad_nmea": ("nmea", b"$GPQQQ*00\r\n"),
        "rtcm_bad": ("rtcm", wire.rtcm_frame(b"")),
        "unknown_hdr": ("garbage", b"\xb5\x00"),
    }
    style = rng.choice(sorted(tiny))
    kind, data = tiny[style]
    count = rng.choice((65536, 65537, 66000, 70001))
    tail = rng.choice([k for k in ("nmea", "ubx", "rtcm") if tiny[k][0] != kind] or ["nmea"])
    return kind, data, count, style, tiny[tail][0], tiny[tail][1]


def block_length(rng):
    """
    A payload length for which some plausible total (payload, payload + 2 checksum bytes, whole
    frame) is an exact multiple of a block size a reader might read in (1 KiB ... 32 KiB), or one off.
    """
    while True:
        block = rng.choice((1024, 4096, 8192, 16384, 32768))
        mult = rng.randrange(1, 65536 // block + 1)
        n = block * mult - rng.choice((0, 2, 6, 8)) + rng.choice((0, 0, 0, -1, 1))
        if 0 < n <= 65535:
            return n
