"""
Drive the real reader against a simulated transport and canonicalise what it does.
"""

from sim import core
from sim.meter import StepMeter
from sim.transports import SimBudgetExceeded, make_transport

RUN_LOOP_BUDGET = 50_000_000  # loop iterations (library + simulator) one reader run may take

MAX_ITEMS_SLACK = 16


def canon_parsed(parsed):
    """(type name, repr, str) with exceptions from repr/str captured as values."""
    if parsed is None:
        return None
    try:
        r = repr(parsed)
    except Exception as err:  # pylint: disable=broad-except
        r = f"!repr raised {type(err).__name__}: {err}"
    try:
        s = str(parsed)
    except Exception as err:  # pylint: disable=broad-except
        s = f"!str raised {type(err).__name__}: {err}"
    return (type(parsed).__name__, r, s)


def canon_exc(err):
    return (type(err).__module__ + "." + type(err).__name__, str(err))


def exc_origin(err) -> str:
    """'<package-relative file>:<function>' of the innermost frame that raised err."""
    if isinstance(err, RecursionError):
        return "recursion"  # the innermost frame at the depth limit is incidental
    tb = err.__traceback__
    if tb is None:
        return "?"
    while tb.tb_next is not None:
        tb = tb.tb_next
    fn = tb.tb_frame.f_code.co_filename
    for marker in ("/site-packages/", core.REPO_SRC.rstrip("/") + "/", "/lib/python3"):
        if marker in fn:
            fn = fn.split(marker, 1)[1]
            break
    return f"{fn}:{tb.tb_frame.f_code.co_name}"


class Outcome:
    """What one execution of the reader did."""

    __slots__ = ("items", "events", "exc", "exc_where", "hang", "transport", "handler_bad", "objs", "decoy_calls")

    def __init__(self):
        self.items = []  # [(raw bytes, canon_parsed)]
        self.events = []  # unified log: ("D", raw) | ("E", exc type, message)
        self.exc = None  # canon_exc of an exception that escaped iteration
        self.exc_where = None  # exc_origin of that exception
        self.hang = None  # message of SimBudgetExceeded
        self.transport = None
        self.handler_bad = []  # handler invoked with something that is not an exception
        self.objs = []  # parsed objects (kept only on request)
        self.decoy_calls = 0  # calls received by the handler of ANOTHER live reader

    def raws(self):
        return [r for r, _ in self.items]


def reader_kwargs(cfg: dict) -> dict:
    kw = {
        "msgmode": cfg.get("msgmode", 0),
        "validate": cfg.get("validate", 1),
        "protfilter": cfg.get("protfilter", 7),
        "quitonerror": cfg.get("quitonerror", 1),
        "parsebitfield": cfg.get("parsebitfield", 1),
        "labelmsm": cfg.get("labelmsm", 1),
        "parsing": cfg.get("parsing", True),
    }
    if "bufsize" in cfg:
        kw["bufsize"] = cfg["bufsize"]
    return kw


class _FalsyHandler:
    """A present-but-falsy error handler object (an empty collection with __call__)."""

    def __init__(self, fn):
        self._fn = fn

    def __len__(self):
        return 0

    def __call__(self, err):
        self._fn(err)


class _HandlerWithErrorAttr:
    """A callable handler object that happens to have an attribute called `error` (last error seen)."""

    def __init__(self, fn, as_method):
        self._fn = fn
        if as_method:
            self.error = self._not_the_handler
        else:
            self.error = None
        self.misrouted = 0

    def _not_the_handler(self, *args, **kwargs):
        self.misrouted += 1

    def __call__(self, err):
        self.error = None if not callable(self.error) else self.error
        return self._fn(err)


class HandlerBoom(Exception):
    """Raised (once) by a faulty application-supplied error handler."""


class _MethodHandler:
    def __init__(self, fn):
        self._fn = fn

    def handle(self, err):
        self._fn(err)


def run_reader(wire: bytes, cfg: dict, tr: dict, keep_objs=False, use_read=False) -> Outcome:
    """
    Execute UBXReader over the scenario's wire/transport until iteration ends, an exception
    escapes, or the step budget is exhausted.  cfg["handler"] (default True) says whether an
    errorhandler callable is supplied.
    """
    from pyubx2 import UBXReader  # pylint: disable=import-outside-toplevel

    out = Outcome()
    transport = make_transport(wire, tr)
    out.transport = transport
    kw = reader_kwargs(cfg)
    boom = {"armed": cfg.get("handler_kind") == "raise_once"}
    if cfg.get("handler", True):

        def handler(err):
            if isinstance(err, BaseException):
                out.events.append(("E",) + canon_exc(err))
            else:
                out.handler_bad.append(repr(err))
            if boom["armed"]:
                boom["armed"] = False
                raise HandlerBoom("the application's handler failed once")
            if cfg.get("handler_kind") == "returns_value":
                return len(out.events)  # e.g. the character count of a log write
            if cfg.get("handler_kind") == "returns_false":
                return False
            return None

        kind = cfg.get("handler_kind", "function")
        if kind == "falsy_callable":
            kw["errorhandler"] = _FalsyHandler(handler)
        elif kind == "method":
            # a bound method of an object nobody else refers to (e.g. Monitor().on_error)
            kw["errorhandler"] = _MethodHandler(handler).handle
        elif kind in ("error_attr_data", "error_attr_method"):
            kw["errorhandler"] = _HandlerWithErrorAttr(handler, kind == "error_attr_method")
        else:
            kw["errorhandler"] = handler
    use_read = use_read or cfg.get("drive") == "read"
    rereads = int(tr.get("rereads", 0)) if tr.get("redrive_all") else 0
    writes = set(cfg.get("writes") or ())
    max_items = len(wire) + MAX_ITEMS_SLACK
    stream_obj = getattr(transport, "stream", transport)
    core.VirtualClock.source = transport if hasattr(transport, "now") else None
    # bounded liveness for every run of every check: an endless loop that never touches the transport is a
    # deterministic `hang` verdict (loop iterations counted with PEP 669 JUMP events), not a watchdog kill
    meter = StepMeter(RUN_LOOP_BUDGET)
    try:
        meter.__enter__()
        ubr = UBXReader(stream_obj, **kw)
        kw.clear()  # the reader holds the only reference to its handler now
        if cfg.get("decoy"):
            # a second reader alive in the same process with its own policy and handler: nothing
            # this reader does may be routed through the other one's configuration
            def decoy_handler(err):  # pylint: disable=unused-argument
                out.decoy_calls += 1

            decoy = UBXReader(
                make_transport(b"", {"kind": "file"}),
                quitonerror=cfg.get("decoy_policy", 1),
                protfilter=cfg.get("decoy_protfilter", 7),
                msgmode=cfg.get("decoy_msgmode", 0),
                validate=cfg.get("decoy_validate", 1),
                parsebitfield=cfg.get("decoy_parsebitfield", 1),
                labelmsm=cfg.get("decoy_labelmsm", 1),
                parsing=cfg.get("decoy_parsing", True),
                errorhandler=decoy_handler,
            )
            out.objs.append(decoy)  # keep it alive for the whole run
        n = 0
        if use_read or rereads or cfg.get("handler_kind") == "raise_once":
            ends = 0
            late_ends = 0
            while True:
                try:
                    raw, parsed = ubr.read()
                except HandlerBoom:
                    continue  # the application catches its own handler's failure and keeps reading
                if raw is None and parsed is None:
                    ends += 1
                    if not rereads:
                        break
                    # the application keeps asking until the peer has long finished: at least
                    # `rereads` times, and (bounded) for as long as scheduled data is still to come
                    arrived = transport.everything_arrived() if hasattr(transport, "everything_arrived") else True
                    if arrived:
                        late_ends += 1
                    if (ends > rereads and late_ends >= 3) or ends > 2000:
                        break
                    if hasattr(transport, "idle"):
                        transport.idle(1.0)  # the application waits a little and asks again
                    continue
                out.items.append((raw, canon_parsed(parsed)))
                out.events.append(("D", raw))
                if keep_objs:
                    out.objs.append(parsed)
                n += 1
                if n in writes and hasattr(transport, "recv") and hasattr(ubr.datastream, "write"):
                    # the application sends a poll request between two reads (what arrives must not depend on it)
                    ubr.datastream.write(b"\xb5\x62\x0a\x04\x00\x00\x0e\x34")
                if n > max_items:
                    raise SimBudgetExceeded(f"more than {max_items} items delivered")
        elif cfg.get("resume_after_raise"):
            # the application holds ONE iterator, catches a protocol error raised under ERR_RAISE and
            # goes on with next(it): frames after the rejected one must not be disturbed
            from checks.common import proto_errors  # pylint: disable=import-outside-toplevel

            it = iter(ubr)
            while True:
                try:
                    raw, parsed = next(it)
                except StopIteration:
                    break
                except proto_errors() as err:
                    out.events.append(("E",) + canon_exc(err))
                    if len(out.events) > max_items * 2:
                        raise SimBudgetExceeded("errors without end") from err
                    continue
                out.items.append((raw, canon_parsed(parsed)))
                out.events.append(("D", raw))
                n += 1
                if n > max_items:
                    raise SimBudgetExceeded(f"more than {max_items} items delivered")
        else:
            for raw, parsed in ubr:
                out.items.append((raw, canon_parsed(parsed)))
                out.events.append(("D", raw))
                if keep_objs:
                    out.objs.append(parsed)
                n += 1
                if n in writes and hasattr(transport, "recv") and hasattr(ubr.datastream, "write"):
                    ubr.datastream.write(b"\xb5\x62\x0a\x04\x00\x00\x0e\x34")
                if n > max_items:
                    raise SimBudgetExceeded(f"more than {max_items} items delivered")
            if cfg.get("second_pass"):
                # the application iterates the SAME reader again after it ended (a second `for` loop,
                # e.g. following a log file): nothing has arrived in between, nothing may be yielded again
                for raw, parsed in ubr:
                    out.items.append((raw, canon_parsed(parsed)))
                    out.events.append(("D", raw))
                    n += 1
                    if n > max_items:
                        raise SimBudgetExceeded(f"more than {max_items} items delivered")
    except SimBudgetExceeded as err:
        out.hang = str(err)
    except Exception as err:  # pylint: disable=broad-except
        out.exc = canon_exc(err)
        out.exc_where = exc_origin(err)
        out.events.append(("X",) + out.exc)
    finally:
        meter.__exit__(None, None, None)
        core.VirtualClock.source = None
    return out


def embed_offsets(wire: bytes, raws):
    """
    Earliest-match greedy embedding of raws as non-overlapping in-order slices of wire.
    Returns list of offsets or None when no embedding exists (greedy is complete for
    contiguous in-order embeddings).
    """
    pos = 0
    offs = []
    for r in raws:
        if not isinstance(r, (bytes, bytearray)):
            return None
        i = wire.find(r, pos)
        if i < 0:
            return None
        offs.append(i)
        pos = i + len(r)
    return offs


def is_prefix(a, b) -> bool:
    return len(a) <= len(b) and b[: len(a)] == a
