"""
Self-tests of the simulator: import path, reference checksums against literal vectors and
recorded receiver logs, transports against hand-computed schedules, and - most important -
determinism: the same seeds executed in separate interpreters under different PYTHONHASHSEED
values and worker counts must give bit-identical per-seed digests.
"""

import glob
import importlib
import json
import os
import subprocess
import sys

from sim import core, wire

CHECKS = ["c05", "c06", "c07", "c08", "c09", "c10", "c11", "c12", "c13"]


def _fail(msg):
    print(f"SELFTEST-FAIL: {msg}")
    return 1


def test_vectors():
    bad = 0
    # Fletcher-8: ACK-ACK for CFG-MSG, from the u-blox interface description
    if wire.ubx_frame(0x05, 0x01, b"\x06\x01") != bytes.fromhex("b5620501020006010f38"):
        bad += _fail("fletcher8 vector")
    if not wire.ubx_well_formed(bytes.fromhex("b56206000000" "0618")):
        bad += _fail("well_formed on CFG-PRT poll")
    if wire.nmea_sentence(b"GNDTM,W84,,0.0,N,0.0,E,0.0,W84") != b"$GNDTM,W84,,0.0,N,0.0,E,0.0,W84*71\r\n":
        bad += _fail("nmea checksum vector")
    f = bytes.fromhex("d300133ed7d30202980edeef34b4bd62ac0941986f33360b98")
    if wire.rtcm_frame(f[3:-3]) != f:
        bad += _fail("crc24q vector (RTCM 1005)")
    # the repository's recorded logs: every UBX frame found by a plain scan must satisfy the
    # simulator's well-formedness reference (cross-check against real receiver output)
    n = 0
    for path in sorted(glob.glob("/repo/tests/pygpsdata*.log"))[:6]:
        data = open(path, "rb").read()
        i = 0
        while True:
            i = data.find(b"\xb5\x62", i)
            if i < 0 or i + 8 > len(data):
                break
            ln = int.from_bytes(data[i + 4 : i + 6], "little")
            fr = data[i : i + 8 + ln]
            if len(fr) == 8 + ln and wire.ubx_well_formed(fr):
                n += 1
                i += len(fr)
            else:
                i += 2
    if n < 50:
        bad += _fail(f"only {n} well-formed UBX frames found in the recorded logs")
    return bad


def test_transports():
    from sim.transports import SimSerial, SimSocket  # pylint: disable=import-outside-toplevel

    bad = 0
    s = SimSocket(b"abcdefgh", {"segments": [[0.0, 3], [0.0, 2], [1.0, 3]], "timeout": 2.0, "end": "timeout"})
    got = []
    try:
        while True:
            got.append(s.recv(4))
    except TimeoutError:
        pass
    if got != [b"abcd", b"e", b"fgh"] or s.now != 3.0:
        bad += _fail(f"SimSocket schedule: {got} now={s.now}")
    s = SimSocket(b"abcdef", {"segments": [[0.0, 3], [5.0, 3]], "timeout": 2.0, "end": "close"})
    seq = []
    for _ in range(6):
        try:
            seq.append(s.recv(10))
        except TimeoutError:
            seq.append("T")
    if seq != [b"abc", "T", "T", b"def", b"", b""]:
        bad += _fail(f"SimSocket stall: {seq}")
    p = SimSerial(b"abc\ndef", {"segments": [[0.0, 2], [0.5, 3], [9.0, 2]], "timeout": 1.0})
    r = [p.read(2), p.readline(), p.read(4), p.read(4), p.read(1)]
    if r[0] != b"ab" or r[1] != b"c\n" or r[2] != b"d" or r[3] != b"":
        bad += _fail(f"SimSerial: {r}")
    return bad


def unit_digest(mod, unit):
    res = mod.run_unit(unit)
    return core.digest(
        (
            res.evaluations,
            sorted(res.digests),
            sorted(res.counters.items()),
            [(v.get("clause"), core.digest(v)) for v in res.violations],
            {k: sorted(v.items()) for k, v in res.extra.items()},
        )
    )


def cmd_digests(only, n):
    """Print per-unit digests for the first n units of each check (used via subprocess)."""
    out = {}
    for name in CHECKS:
        if only and name not in only:
            continue
        try:
            mod = importlib.import_module("checks." + name)
        except ModuleNotFoundError:
            continue
        ds = []
        count = 0
        for batch in mod.batches("selftest", 7):
            for unit in batch:
                ds.append(unit_digest(mod, unit))
                count += 1
                if count >= n:
                    break
            if count >= n:
                break
        out[name] = ds
    print("DIGESTS " + json.dumps(out, sort_keys=True))
    return 0


UNIT_SCALE = {"c05": 0.2, "c09": 0.3, "c13": 0.7}


def _child(name, hs, n):
    env = dict(os.environ)
    env["PYTHONHASHSEED"] = hs
    env["VERIF_NO_REEXEC"] = "1"
    env["VERIF_SELFTEST_CHILD"] = "1"
    env["VERIF_NPROC"] = "2" if hs != "0" else "4"  # C13 golden computation: different worker counts
    k = max(4, int(n * UNIT_SCALE.get(name, 1.0)))
    cmd = [sys.executable, os.path.join(core.VERIF_DIR, "dst.py"), "selftest", "--seeds", str(k), "--only", name]
    proc = subprocess.run(cmd, capture_output=True, text=True, env=env, timeout=1800, check=False)
    line = [l for l in proc.stdout.splitlines() if l.startswith("DIGESTS ")]
    if proc.returncode != 0 or not line:
        return name, hs, None, f"rc={proc.returncode}: {proc.stderr[-800:]}"
    return name, hs, json.loads(line[0][8:]).get(name), None


def test_determinism(only, n):
    from concurrent.futures import ThreadPoolExecutor  # pylint: disable=import-outside-toplevel

    names = []
    for name in CHECKS:
        if only and name not in only:
            continue
        if os.path.exists(os.path.join(core.VERIF_DIR, "checks", name + ".py")):
            names.append(name)
    seeds = ("0", "12345", "random")
    jobs = [(name, hs) for name in names for hs in seeds]
    results = {}
    bad = 0
    with ThreadPoolExecutor(max_workers=9) as tp:
        for name, hs, ds, err in tp.map(lambda j: _child(j[0], j[1], n), jobs):
            if err:
                bad += _fail(f"child {name} (PYTHONHASHSEED={hs}) {err}")
            results[(name, hs)] = ds
    total = 0
    for name in names:
        ref = results.get((name, seeds[0]))
        if ref is None:
            continue
        total += len(ref)
        for hs in seeds[1:]:
            other = results.get((name, hs))
            if other is None:
                continue
            for i, d in enumerate(ref):
                if i >= len(other) or other[i] != d:
                    bad += _fail(f"{name} unit {i} diverges between PYTHONHASHSEED={seeds[0]} and {hs}")
                    break
    if not bad:
        print(f"determinism: {total} units x 3 interpreters (PYTHONHASHSEED 0 / 12345 / random, different worker counts) identical ({', '.join(names)})")
    return bad


def main(args):
    only = args.only.split(",") if args.only else None
    if os.environ.get("VERIF_SELFTEST_CHILD"):
        return cmd_digests(only, args.seeds)
    bad = test_vectors() + test_transports() + test_determinism(only, args.seeds)
    if bad:
        return 2
    print("selftest ok")
    return 0
