"""
Seed handling, named PRNG streams, event log + digests, bootstrap of the code under test.

One integer decides everything: every PRNG used anywhere in the simulator is
``stream(run_seed, label)``.  String-derived seeding makes the streams independent of
PYTHONHASHSEED.  Nothing here reads a wall clock.
"""

import hashlib
import json
import os
import random
import sys

REPO_SRC = os.environ.get("VERIF_REPO_SRC", "/repo/src")
VERIF_DIR = os.path.dirname(os.path.dirname(os.path.abspath(__file__)))


class HarnessError(Exception):
    """Something is wrong with the simulator itself (exit code 2, never a verdict)."""


def bootstrap():
    """Import the code under test from /repo/src (never from a stale copy or .pyc)."""
    sys.dont_write_bytecode = True
    if REPO_SRC in sys.path:
        sys.path.remove(REPO_SRC)
    sys.path.insert(0, REPO_SRC)
    import pyubx2  # pylint: disable=import-outside-toplevel

    got = os.path.realpath(os.path.dirname(pyubx2.__file__))
    want = os.path.realpath(os.path.join(REPO_SRC, "pyubx2"))
    if got != want:
        raise HarnessError(f"pyubx2 imported from {got}, expected {want}")
    import logging  # pylint: disable=import-outside-toplevel

    # the reader logs rejected frames under ERR_LOG when no handler is given; keep the
    # simulator's own stdout/stderr clean and deterministic.
    lg = logging.getLogger("pyubx2")
    lg.addHandler(logging.NullHandler())
    lg.propagate = False
    return pyubx2


def stream(seed: int, label: str) -> random.Random:
    """Named PRNG stream derived from (seed, label)."""
    h = hashlib.sha256(f"{seed}/{label}".encode("ascii")).digest()
    return random.Random(int.from_bytes(h[:16], "big"))


def run_seed(base: int, index: int) -> int:
    """Per-run seed s_i for VERIF_SEED=base."""
    return base * 100_000_007 + index


def canon(obj):
    """JSON-able canonical form (bytes -> hex string, tuples -> lists)."""
    if isinstance(obj, (bytes, bytearray)):
        return "hex:" + bytes(obj).hex()
    if isinstance(obj, dict):
        return {str(k): canon(v) for k, v in obj.items()}
    if isinstance(obj, (list, tuple)):
        return [canon(x) for x in obj]
    if isinstance(obj, (str, int, bool)) or obj is None:
        return obj
    if isinstance(obj, float):
        return repr(obj)
    return repr(obj)


def jsonable(obj):
    """Like canon() but floats stay numbers (for files meant to be read back)."""
    if isinstance(obj, (bytes, bytearray)):
        return bytes(obj).hex()
    if isinstance(obj, dict):
        return {str(k): jsonable(v) for k, v in obj.items()}
    if isinstance(obj, (list, tuple, set, frozenset)):
        return [jsonable(x) for x in (sorted(obj, key=repr) if isinstance(obj, (set, frozenset)) else obj)]
    if isinstance(obj, (str, int, bool, float)) or obj is None:
        return obj
    return repr(obj)


def digest(obj) -> str:
    """SHA-256 over the canonical JSON dump of obj."""
    return hashlib.sha256(
        json.dumps(canon(obj), sort_keys=True, separators=(",", ":")).encode("utf-8")
    ).hexdigest()


class Counters(dict):
    """dict of int counters with += semantics and merge."""

    def hit(self, key, n=1):
        self[key] = self.get(key, 0) + n

    def merge(self, other):
        for k, v in other.items():
            self[k] = self.get(k, 0) + v
        return self


def h2b(s: str) -> bytes:
    return bytes.fromhex(s)


def b2h(b: bytes) -> str:
    return bytes(b).hex()
