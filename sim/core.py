"""
Seed handling, named PRNG streams, event log + digests, bootstrap of the code under test.

One integer decides everything: every PRNG used anywhere in the simulator is
``stream(run_seed, label)``.  String-derived seeding makes the streams independent of
PYTHONHASHSEED.  Nothing here reads a wall clock.
"""

import hashlib
import json
import os
import random
import sys

REPO_SRC = os.environ.get("VERIF_REPO_SRC", "/repo/src")
VERIF_DIR = os.path.dirname(os.path.dirname(os.path.abspath(__file__)))


class HarnessError(Exception):
    """Something is wrong with the simulator itself (exit code 2, never a verdict)."""


class VirtualClock:
    """
    The seam for wall-clock reads.  pyubx2 reads no clock today; if code under test ever does
    (time.monotonic / time.time / time.perf_counter / time.sleep), it gets the simulator's clock
    while a simulated transport is active, so that timeouts stay a function of the schedule.
    The wrappers are installed BEFORE pyubx2 is imported, so `from time import monotonic` binds to them.
    """

    source = None  # object with a .now attribute (a simulated transport) or None

    @classmethod
    def install(cls):
        import time as _t  # pylint: disable=import-outside-toplevel

        if getattr(_t, "_dst_seam", False):
            return
        real = {n: getattr(_t, n) for n in ("monotonic", "time", "perf_counter", "sleep", "monotonic_ns", "time_ns", "perf_counter_ns")}

        def reader(name, scale=1):
            def fn():
                src = cls.source
                if src is None:
                    return real[name]()
                return int(src.now * scale) if scale != 1 else float(src.now)

            fn.__name__ = name
            return fn

        def sleep(secs):
            src = cls.source
            if src is None:
                return real["sleep"](secs)
            src.now += max(float(secs), 0.0)
            return None

        _t.monotonic = reader("monotonic")
        _t.time = reader("time")
        _t.perf_counter = reader("perf_counter")
        _t.monotonic_ns = reader("monotonic_ns", 10**9)
        _t.time_ns = reader("time_ns", 10**9)
        _t.perf_counter_ns = reader("perf_counter_ns", 10**9)
        _t.sleep = sleep
        _t._dst_seam = True  # pylint: disable=protected-access
        cls.real = real


class clock:  # pylint: disable=invalid-name
    """with core.clock(transport): ...  - the code under test reads the transport's virtual clock."""

    def __init__(self, transport):
        self.src = transport if hasattr(transport, "now") else None

    def __enter__(self):
        self.prev = VirtualClock.source
        VirtualClock.source = self.src
        return self

    def __exit__(self, *exc):
        VirtualClock.source = self.prev
        return False


def bootstrap():
    """Import the code under test from /repo/src (never from a stale copy or .pyc)."""
    sys.dont_write_bytecode = True
    VirtualClock.install()
    if REPO_SRC in sys.path:
        sys.path.remove(REPO_SRC)
    sys.path.insert(0, REPO_SRC)
    # Locks the code under test creates while it is imported (module / class level) are made
    # simulator-aware: a scheduled worker that finds one taken yields the baton instead of blocking.
    import threading  # pylint: disable=import-outside-toplevel
    from sim import threads as _simthreads  # pylint: disable=import-outside-toplevel

    real_lock, real_rlock = threading.Lock, threading.RLock
    threading.Lock, threading.RLock = _simthreads.sim_lock, _simthreads.sim_rlock
    try:
        import pyubx2  # pylint: disable=import-outside-toplevel
        import pkgutil  # pylint: disable=import-outside-toplevel
        import importlib  # pylint: disable=import-outside-toplevel

        for mod in pkgutil.iter_modules(pyubx2.__path__):
            importlib.import_module("pyubx2." + mod.name)
    finally:
        threading.Lock, threading.RLock = real_lock, real_rlock

    got = os.path.realpath(os.path.dirname(pyubx2.__file__))
    want = os.path.realpath(os.path.join(REPO_SRC, "pyubx2"))
    if got != want:
        raise HarnessError(f"pyubx2 imported from {got}, expected {want}")
    import logging  # pylint: disable=import-outside-toplevel

    # the reader logs rejected frames under ERR_LOG when no handler is given; keep the
    # simulator's own stdout/stderr clean and deterministic.
    lg = logging.getLogger("pyubx2")
    lg.addHandler(logging.NullHandler())
    lg.propagate = False
    level = os.environ.get("VERIF_PYUBX2_LOGLEVEL")
    if level:  # the application has turned on (debug) logging for the package
        lg.setLevel(getattr(logging, level))
    return pyubx2


def stream(seed: int, label: str) -> random.Random:
    """Named PRNG stream derived from (seed, label)."""
    h = hashlib.sha256(f"{seed}/{label}".encode("ascii")).digest()
    return random.Random(int.from_bytes(h[:16], "big"))


def run_seed(base: int, index: int) -> int:
    """Per-run seed s_i for VERIF_SEED=base."""
    return base * 100_000_007 + index


def canon(obj):
    """JSON-able canonical form (bytes -> hex string, tuples -> lists)."""
    if isinstance(obj, (bytes, bytearray)):
        return "hex:" + bytes(obj).hex()
    if isinstance(obj, dict):
        return {str(k): canon(v) for k, v in obj.items()}
    if isinstance(obj, (list, tuple)):
        return [canon(x) for x in obj]
    if isinstance(obj, (str, int, bool)) or obj is None:
        return obj
    if isinstance(obj, float):
        return repr(obj)
    return repr(obj)


def jsonable(obj):
    """Like canon() but floats stay numbers (for files meant to be read back)."""
    if isinstance(obj, (bytes, bytearray)):
        return bytes(obj).hex()
    if isinstance(obj, dict):
        return {str(k): jsonable(v) for k, v in obj.items()}
    if isinstance(obj, (list, tuple, set, frozenset)):
        return [jsonable(x) for x in (sorted(obj, key=repr) if isinstance(obj, (set, frozenset)) else obj)]
    if isinstance(obj, (str, int, bool, float)) or obj is None:
        return obj
    return repr(obj)


def digest(obj) -> str:
    """SHA-256 over the canonical JSON dump of obj."""
    return hashlib.sha256(
        json.dumps(canon(obj), sort_keys=True, separators=(",", ":")).encode("utf-8")
    ).hexdigest()


class Counters(dict):
    """dict of int counters with += semantics and merge."""

    def hit(self, key, n=1):
        self[key] = self.get(key, 0) + n

    def merge(self, other):
        for k, v in other.items():
            self[k] = self.get(k, 0) + v
        return self


def h2b(s: str) -> bytes:
    return bytes.fromhex(s)


def b2h(b: bytes) -> str:
    return bytes(b).hex()
