"""
The link: typed, explicit faults applied to frames in transit.

A fault is a small JSON-able dict; applying a fault list to a frame is a pure function, so a
scenario (frames + faults) replays without a PRNG and the minimiser can drop faults one by
one.  Out-of-range positions are no-ops so that removing an earlier fault never invalidates
a later one.
"""

from sim import wire


def apply_faults(data: bytes, faults) -> bytes:
    x = bytearray(data)
    for f in faults or ():
        k = f["k"]
        if k == "sub":
            if 0 <= f["pos"] < len(x):
                x[f["pos"]] = f["val"]
        elif k == "flip":
            if 0 <= f["pos"] < len(x):
                x[f["pos"]] ^= 1 << f["bit"]
        elif k == "ins":
            p = min(max(f["pos"], 0), len(x))
            x[p:p] = bytes.fromhex(f["hex"])
        elif k == "del":
            p = f["pos"]
            if 0 <= p < len(x):
                del x[p : p + f.get("n", 1)]
        elif k == "trunc":
            del x[max(f["len"], 0) :]
        elif k == "burst":
            p = f["pos"]
            b = bytes.fromhex(f["hex"])
            if 0 <= p < len(x):
                b = b[: len(x) - p]
                x[p : p + len(b)] = b
        elif k == "reseal":
            x = bytearray(wire.ubx_reseal(bytes(x)))
        else:
            raise ValueError(f"unknown fault kind {k}")
    return bytes(x)


def frame_bytes(fr: dict) -> bytes:
    """Post-fault bytes of a scenario frame (`repeat`: that many back-to-back copies, for giant runs)."""
    return apply_faults(bytes.fromhex(fr["hex"]), fr.get("faults")) * int(fr.get("repeat", 1))


def wire_of(frames) -> bytes:
    return b"".join(frame_bytes(f) for f in frames)


def frame_spans(frames):
    """[(start, end, frame)] of each frame on the post-fault wire."""
    out, off = [], 0
    for f in frames:
        b = frame_bytes(f)
        out.append((off, off + len(b), f))
        off += len(b)
    return out


# ------------------------------------------------------------------------------------
# fault generators
# ------------------------------------------------------------------------------------


def boundary_preserving(rng, kind: str, data: bytes):
    """
    One byte substitution that keeps the frame's length and terminator, so the frame's
    boundaries on the wire stay where the simulator put them.  Returns a fault or None.
    UBX: class/id, payload or checksum byte (never sync or length).  NMEA: body byte at
    index >= 2 up to (not incl.) the final LF, never replaced by LF.  RTCM3: payload or CRC
    byte (never the 3 header bytes).
    """
    n = len(data)
    if kind == "ubx":
        if n < 8:
            return None
        choices = [2, 3] + list(range(6, n))
        where = rng.random()
        if where < 0.5:
            pos = rng.choice((n - 2, n - 1))
        else:
            pos = rng.choice(choices)
    elif kind == "nmea":
        if n < 4 or data[-1:] != b"\n":
            return None
        where = rng.random()
        if where < 0.4 and n >= 6:
            pos = rng.randrange(max(2, n - 5), n - 1)  # checksum digits / '*' / CR
        else:
            pos = rng.randrange(2, n - 1)
    elif kind == "rtcm":
        if n < 6:
            return None
        where = rng.random()
        if where < 0.5 or n == 6:
            pos = rng.randrange(n - 3, n)
        else:
            pos = rng.randrange(3, n)
    else:
        return None
    while True:
        val = rng.choice(FRAME_VALUES) if rng.random() < 0.4 else rng.randrange(256)
        if val == data[pos]:
            continue
        if kind == "nmea" and val == 0x0A:
            continue
        break
    return {"k": "sub", "pos": pos, "val": val}


FRAME_VALUES = bytes.fromhex("b562244750d3000102030a0d2aff")  # values that mean something to a framer

INS_BYTES = ("00", "ff", "b5", "62", "24", "d3", "0a", "b562", "d300", "2447")


def any_fault(rng, data: bytes, allow_reseal=True):
    """One unrestricted byte-level fault for a frame of len(data)."""
    n = len(data)
    k = rng.choice(("sub", "sub", "flip", "ins", "del", "trunc", "burst"))
    if n == 0:
        k = "ins"
    if k == "sub":
        return {"k": "sub", "pos": rng.randrange(n), "val": rng.choice(FRAME_VALUES) if rng.random() < 0.35 else rng.randrange(256)}
    if k == "flip":
        return {"k": "flip", "pos": rng.randrange(n), "bit": rng.randrange(8)}
    if k == "ins":
        hx = rng.choice(INS_BYTES) if rng.random() < 0.7 else bytes(
            rng.getrandbits(8) for _ in range(rng.randrange(1, 5))
        ).hex()
        return {"k": "ins", "pos": rng.randrange(n + 1), "hex": hx}
    if k == "del":
        return {"k": "del", "pos": rng.randrange(n), "n": rng.choice((1, 1, 1, 2, 3))}
    if k == "trunc":
        return {"k": "trunc", "len": rng.randrange(n)}
    ln = rng.randrange(1, 9)
    return {"k": "burst", "pos": rng.randrange(n), "hex": bytes(rng.getrandbits(8) for _ in range(ln)).hex()}


def count_fired(frames, counters):
    """Count faults that actually changed bytes."""
    for f in frames:
        data = bytes.fromhex(f["hex"])
        for flt in f.get("faults") or ():
            new = apply_faults(data, [flt])
            if new != data:
                counters.hit("fault_" + flt["k"])
            data = new
