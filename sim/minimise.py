"""
Scenario minimisation: delta debugging over the frame list, the fault lists, garbage bytes,
the transport schedule and the configuration, keeping "the same oracle clause fails" true.
"""

import copy

DEFAULT_CFG = {
    "msgmode": 0,
    "validate": 1,
    "protfilter": 7,
    "quitonerror": 1,
    "parsebitfield": 1,
    "labelmsm": 1,
    "parsing": True,
    "handler": True,
    "bufsize": 4096,
}

MAX_TESTS = 3000


class _Budget:
    def __init__(self, n):
        self.left = n

    def take(self):
        self.left -= 1
        return self.left >= 0


def size_of(scn) -> dict:
    out = {}
    if "frames" in scn:
        out["frames"] = len(scn["frames"])
        out["faults"] = sum(len(f.get("faults") or ()) for f in scn["frames"])
        out["bytes"] = sum(len(f["hex"]) // 2 for f in scn["frames"])
    tr = scn.get("transport") or {}
    if tr.get("segments"):
        out["segments"] = len(tr["segments"])
    th = scn.get("threads")
    if th:
        out["ops"] = sum(len(o) for o in th.get("ops", []))
        out["switches"] = len(th.get("switches") or [])
    return out


def ddmin_list(items, test, budget):
    """Classic ddmin: smallest sublist (order kept) for which test(sublist) is True."""
    n = 2
    items = list(items)
    while len(items) >= 1:
        chunk = max(len(items) // n, 1)
        reduced = False
        i = 0
        while i < len(items):
            cand = items[:i] + items[i + chunk :]
            if not budget.take():
                return items
            if test(cand):
                items = cand
                n = max(n - 1, 2)
                reduced = True
            else:
                i += chunk
        if not reduced:
            if chunk == 1:
                break
            n = min(n * 2, len(items))
    return items


def shrink_generic(scn, fails, max_tests=MAX_TESTS):
    """Generic shrink over the common scenario format (frames/faults/transport/config)."""
    if len(scn.get("frames") or ()) > 200 or sum(len(f["hex"]) for f in scn.get("frames") or ()) > 40000:
        max_tests = min(max_tests, 400)  # long wires: each test is expensive
    budget = _Budget(max_tests)
    cur = copy.deepcopy(scn)

    def with_(**kw):
        c = copy.deepcopy(cur)
        c.update(kw)
        return c

    # 1. frames
    if cur.get("frames"):
        frames = ddmin_list(cur["frames"], lambda fr: fails(with_(frames=fr)), budget)
        cur["frames"] = frames
        # 2. faults per frame
        for i in range(len(cur["frames"])):
            flts = cur["frames"][i].get("faults") or []
            if not flts:
                continue

            def test_f(fl, i=i):
                c = copy.deepcopy(cur)
                c["frames"][i]["faults"] = fl
                return fails(c)

            cur["frames"][i]["faults"] = ddmin_list(flts, test_f, budget)
        # 3. bytes of garbage / noise frames
        for i in range(len(cur["frames"])):
            fr = cur["frames"][i]
            if fr.get("kind") not in ("garbage", "noise") or fr.get("faults"):
                continue
            data = list(bytes.fromhex(fr["hex"]))

            def test_b(bs, i=i):
                c = copy.deepcopy(cur)
                c["frames"][i]["hex"] = bytes(bs).hex()
                return fails(c)

            data = ddmin_list(data, test_b, budget)
            cur["frames"][i]["hex"] = bytes(data).hex()
    # 4. transport
    tr = cur.get("transport")
    if tr:
        for key, val in (("host_delay", 0.0), ("timeout", None), ("end", "close")):
            if key in tr and tr[key] != val:
                c = copy.deepcopy(cur)
                c["transport"][key] = val
                if budget.take() and fails(c):
                    cur = c
        tr = cur["transport"]
        if tr.get("segments") and len(tr["segments"]) > 1:
            # merge adjacent segments while the failure persists
            def merged(segs):
                c = copy.deepcopy(cur)
                c["transport"]["segments"] = segs
                return c

            segs = tr["segments"]
            total = sum(n for _, n in segs)
            if budget.take() and fails(merged([[0.0, total]])):
                cur = merged([[0.0, total]])
            else:
                i = 0
                while i < len(segs) - 1 and budget.take():
                    cand = segs[:i] + [[segs[i][0], segs[i][1] + segs[i + 1][1]]] + segs[i + 2 :]
                    if fails(merged(cand)):
                        segs = cand
                    else:
                        i += 1
                cur = merged(segs)
        if cur["transport"].get("kind") != "file":
            c = copy.deepcopy(cur)
            c["transport"] = {"kind": "file", "cut": cur["transport"].get("cut")}
            if budget.take() and fails(c):
                cur = c
    # 5. config -> defaults
    cfg = cur.get("config")
    if cfg:
        for key, val in DEFAULT_CFG.items():
            if key in cfg and cfg[key] != val:
                c = copy.deepcopy(cur)
                c["config"][key] = val
                if budget.take() and fails(c):
                    cur = c
    return cur
