#!/venv/bin/python
"""
Deterministic simulation with fault injection for pyubx2 - single entry point.

    dst.py check <ID> --tier quick|thorough      env: VERIF_SEED, VERIF_BUDGET_S, VERIF_NPROC
    dst.py replay <file.json>
    dst.py selftest [--seeds N]

Exit codes: 0 = held on everything explored, 1 = VIOLATION printed, 2 = harness error.
"""

import argparse
import importlib
import json
import os
import sys

HERE = os.path.dirname(os.path.abspath(__file__))
if HERE not in sys.path:
    sys.path.insert(0, HERE)

# one interpreter configuration for every run: no bytecode written into /repo, fixed hash seed
if os.environ.get("PYTHONHASHSEED") is None and os.environ.get("VERIF_NO_REEXEC") is None:
    env = dict(os.environ)
    env["PYTHONHASHSEED"] = "0"
    env["PYTHONDONTWRITEBYTECODE"] = "1"
    os.execve(sys.executable, [sys.executable] + sys.argv, env)

from sim import core  # noqa: E402  pylint: disable=wrong-import-position

CLAIMED = ["C05", "C06", "C07", "C08", "C09", "C10", "C11", "C12", "C13"]


def load_check(pid):
    return importlib.import_module("checks." + pid.lower())


def cmd_check(args):
    from sim import runner  # pylint: disable=import-outside-toplevel

    core.bootstrap()
    mod = load_check(args.property)
    seed = int(os.environ.get("VERIF_SEED", "0") or 0)
    tier = args.tier or os.environ.get("VERIF_TIER") or "quick"
    return runner.run_check(mod, tier, seed, budget_s=args.budget)


def cmd_replay(args):
    core.bootstrap()
    with open(args.path, encoding="utf-8") as fh:
        scn = json.load(fh)
    envreq = scn.get("environment") or {}
    if any(os.environ.get(k) != v for k, v in envreq.items()):
        # the violation was found under a particular environment (e.g. DEBUG logging): replay it there
        os.execve(sys.executable, [sys.executable] + sys.argv, dict(os.environ, VERIF_NO_REEXEC="1", PYTHONHASHSEED="0", **envreq))
    flags = scn.get("interpreter_flags") or []
    if "-O" in flags and not sys.flags.optimize:
        # the violation was found under `python -O`: replay it under the same interpreter flags
        os.execve(sys.executable, [sys.executable, "-O"] + sys.argv, dict(os.environ, VERIF_NO_REEXEC="1", PYTHONHASHSEED="0"))
    mod = load_check(scn["property"])
    v = mod.execute(scn)
    for _ in range(int(scn.get("repeat", 1)) - 1):
        # found in a process that had run other scenarios: the same scenario again, same process
        if v is None:
            v = mod.execute(scn)
    if v is not None and v[0] == scn.get("clause", v[0]):
        print(f"VIOLATION property={scn['property']} replay={os.path.abspath(args.path)}")
        print(f"  clause={v[0]} detail={str(v[1])[:600]}")
        return 1
    if v is not None:
        print(f"replay failed a different clause: {v[0]} ({v[1]}) - recorded clause {scn.get('clause')}")
        return 1
    print("replay: property held")
    return 0


def cmd_digest(args):
    """Print the digest of each given unit (used by the in-check determinism slice)."""
    from sim import selftest  # pylint: disable=import-outside-toplevel

    core.bootstrap()
    mod = load_check(args.property)
    units = json.loads(sys.stdin.read())
    if hasattr(mod, "prepare"):
        mod.prepare("slice")
    print("UNITDIGESTS " + json.dumps([selftest.unit_digest(mod, u) for u in units]))
    return 0


def cmd_units(args):
    """Run the given units in THIS interpreter (e.g. started with -O) and print minimised violations."""
    from sim import runner  # pylint: disable=import-outside-toplevel

    core.bootstrap()
    mod = load_check(args.property)
    units = json.loads(sys.stdin.read())
    if hasattr(mod, "prepare"):
        mod.prepare("slice")
    out, evaluations = [], 0
    for u in units:
        res = mod.run_unit(u)
        evaluations += res.evaluations
        for scn in res.violations[:2]:
            small = runner.minimise_scenario(mod, scn)
            small.pop("_original", None)
            out.append(small)
    print("UNITVIOLATIONS " + json.dumps({"violations": core.jsonable(out), "evaluations": evaluations}))
    return 0


def cmd_selftest(args):
    from sim import selftest  # pylint: disable=import-outside-toplevel

    core.bootstrap()
    return selftest.main(args)


def main():
    ap = argparse.ArgumentParser()
    sub = ap.add_subparsers(dest="cmd", required=True)
    c = sub.add_parser("check")
    c.add_argument("property")
    c.add_argument("--tier", choices=("quick", "thorough"))
    c.add_argument("--budget", type=float, default=None)
    c.set_defaults(fn=cmd_check)
    r = sub.add_parser("replay")
    r.add_argument("path")
    r.set_defaults(fn=cmd_replay)
    d = sub.add_parser("digest")
    d.add_argument("property")
    d.set_defaults(fn=cmd_digest)
    u = sub.add_parser("units")
    u.add_argument("property")
    u.set_defaults(fn=cmd_units)
    s = sub.add_parser("selftest")
    s.add_argument("--seeds", type=int, default=40)
    s.add_argument("--only", default=None)
    s.set_defaults(fn=cmd_selftest)
    args = ap.parse_args()
    try:
        rc = args.fn(args)
    except core.HarnessError as err:
        print(f"HARNESS-ERROR: {err}", file=sys.stderr)
        rc = 2
    except Exception as err:  # pylint: disable=broad-except
        import traceback  # pylint: disable=import-outside-toplevel

        traceback.print_exc()
        print(f"HARNESS-ERROR: {type(err).__name__}: {err}", file=sys.stderr)
        rc = 2
    sys.stdout.flush()
    sys.exit(rc)


if __name__ == "__main__":
    main()
