#!/bin/bash
# usage: tools/matrix.sh <outfile> <patch-dir>...   runs every quick check against each seeded patch in a scratch
# worktree of /repo (VERIF_REPO_SRC), so /repo itself stays untouched.  Informational (the confirming runs
# recorded in seeded/*/meta.json were made against /repo itself with tools/mutant.sh).
out="$1"; shift
wt=/tmp/w/matrix-wt
git -C /repo worktree remove --force $wt 2>/dev/null
git -C /repo worktree add --detach $wt HEAD >/dev/null 2>&1 || exit 2
export VERIF_REPO_SRC=$wt/src VERIF_EVIDENCE_DIR=/tmp/w/matrix-ev VERIF_REPLAY_DIR=/tmp/w/matrix-replays VERIF_NPROC=${VERIF_NPROC:-8}
for d in "$@"; do
  name=$(basename $d)
  git -C $wt checkout -q -- . ; git -C $wt apply $d/patch.diff || { echo "$name: patch does not apply" >> $out; continue; }
  line="$name:"
  for id in C05 C06 C07 C08 C09 C10 C11 C12 C13; do
    o=$(cd /verif && timeout 1500 /venv/bin/python dst.py check $id --tier quick 2>&1); rc=$?
    cl=$(echo "$o" | grep -m1 'clause=' | sed 's/.*clause=\([^ ]*\).*/\1/' | cut -c1-60)
    line="$line $id=$rc${cl:+($cl)}"
  done
  echo "$line" >> $out
done
git -C /repo worktree remove --force $wt
