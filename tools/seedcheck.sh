#!/bin/bash
# usage: tools/seedcheck.sh <outdir> <ID> <X> [<check ids>...]
# Confirms a sub-agent change in its scratch worktree /tmp/mut/<ID> (applies, suite still at baseline, demo fails with
# / passes without) and runs the given quick checks (default: <ID>) against that worktree via VERIF_REPO_SRC.
outdir=$1; id=$2; x=$3; shift 3; checks=${@:-$id}
wt=/tmp/mut/$id; out=$outdir/$id
cd $wt || exit 2
git checkout -q -- .
PYTHONPATH=$wt/src timeout 300 /venv/bin/python $out/demo_$x.py >$out/clean_$x.log 2>&1; rc_clean=$?
git apply $out/$x.diff || { echo "$id-$x: patch does not apply"; exit 1; }
tests=$(timeout 900 /venv/bin/python -m pytest -q -p no:cacheprovider 2>&1 | tail -1)
PYTHONPATH=$wt/src timeout 300 /venv/bin/python $out/demo_$x.py >$out/mut_$x.log 2>&1; rc_mut=$?
line="$id-$x: tests=[$tests] demo clean=$rc_clean mutant=$rc_mut ||"
export VERIF_REPO_SRC=$wt/src VERIF_EVIDENCE_DIR=/tmp/w/seed-ev VERIF_REPLAY_DIR=/tmp/w/seed-replays/$id-$x VERIF_SKIP_DETERMINISM=${VERIF_SKIP_DETERMINISM-1}
for c in $checks; do
  o=$(cd /verif && timeout 1500 /venv/bin/python dst.py check $c --tier quick 2>&1); rc=$?
  cl=$(echo "$o" | grep -m1 'clause=' | sed 's/.*clause=\([^ ]*\).*/\1/' | cut -c1-70)
  line="$line $c=$rc${cl:+($cl)}"
done
git checkout -q -- .
echo "$line"
