#!/usr/bin/env python3
"""Prints rows for the table of DESIGN.md section 10.3 from seeded/*/meta.json: mktable.py [--round N]."""
import glob
import json
import os
import re
import sys

HERE = os.path.dirname(os.path.dirname(os.path.abspath(__file__)))


def rows():
    out = []
    for f in sorted(glob.glob(os.path.join(HERE, "seeded", "*", "meta.json"))):
        m = json.load(open(f, encoding="utf-8"))
        if not re.match(r"^(C\d\d|X\d)-[A-Z]$", m["id"]):
            continue
        out.append(m)
    key = lambda m: (m["id"][0] == "X", m["id"])  # noqa: E731
    return sorted(out, key=key)


def line(m):
    ident = m["id"]
    if ident.startswith("X"):
        ident += f" ({m['breaks_property']})"
    missed = m.get("check_strengthened_to_catch_it") or m.get("why_missed_at_first")
    res = ("**missed at first**, caught after strengthening: " if missed else "first try: ") + m["caught_by"]
    return f"| {ident} | {m['change']} | {m['needs_to_manifest']} | {res} |"


def main():
    rnd = int(sys.argv[sys.argv.index("--round") + 1]) if "--round" in sys.argv else None
    for m in rows():
        if rnd is None or m.get("round") == rnd:
            print(line(m))


if __name__ == "__main__":
    main()
