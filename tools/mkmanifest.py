#!/venv/bin/python
"""Regenerate /verif/MANIFEST.json from the table below and validate it against the schema."""
import json
import os
import sys

HERE = os.path.dirname(os.path.dirname(os.path.abspath(__file__)))
PY = "/venv/bin/python"

CLAIMED = {
    # id: (category, technique, level text, level note, design ref)
    "C06": (
        "exploration",
        "deterministic simulation: seeded 3-source device + fault-injecting link (drop/dup/reorder/noise/corruption) + SimFile/SimSocket schedules; constructive oracle from the post-fault wire",
        "Seeded search over frame histories, link faults and arrival schedules against the real reader; every delivered item is compared with what the protocol's own static parser returns for the frame the simulator put on the wire. Evidence over the sampled space, not a proof.",
        "Trusts CPython, pynmeagps/pyrtcm as the definitions of NMEA/RTCM3 acceptance, and the simulator's own sealers (self-tested against literal vectors and the repo's recorded logs).",
        "DESIGN.md §4 C06",
    ),
}

NOT_APPLICABLE = {
    "C01": "pure function of (frame bytes, msgmode, parsebitfield): no stream, schedule, clock, fault or history enters it; deciding it is input enumeration, not simulation (DESIGN.md §6)",
    "C02": "attribute decoding is a pure function of (definition, payload bytes, parsebitfield); deciding it is enumeration over the definition tables, not simulation (DESIGN.md §6)",
    "C03": "keyword construction -> payload is a pure function of the keyword values; the open question is scaling arithmetic, not scheduling or faults (DESIGN.md §6)",
    "C04": "well-formedness of serialize() is a pure function of constructor arguments; 'accepted by parse' composes two pure functions (DESIGN.md §6)",
    "C14": "config_set/del/poll layout and CFG-VALGET/VALSET parsing are pure functions of (keys, values, header fields) and a static table (DESIGN.md §6)",
    "C15": "refusal of bad keyword values is a pure function of the values supplied; no schedule, fault or history (DESIGN.md §6)",
    "C16": "a statement about the shipped data tables as they stand (static table walk); nothing executes over time (DESIGN.md §6)",
    "C17": "SETPOLL mode detection is a pure function of the frame's bytes (DESIGN.md §6)",
    "C18": "scalar encode/decode and helper round-trips are pure functions of their arguments (DESIGN.md §6)",
}

_P = "claimed by DESIGN.md as a simulation target; its check is still under construction in this tree, so no verdict is offered yet"
PENDING = {pid: _P for pid in ("C05", "C07", "C08", "C09", "C10", "C11", "C12", "C13")}


def main():
    props = [json.loads(l)["id"] for l in open(os.path.join(HERE, "properties.jsonl"), encoding="utf-8")]
    checks = []
    for pid in props:
        if pid not in CLAIMED:
            continue
        cat, tech, text, note, ref = CLAIMED[pid]
        checks.append(
            {
                "property_id": pid,
                "quick_cmd": f"timeout 1500 {PY} /verif/dst.py check {pid} --tier quick",
                "thorough_cmd": f"timeout 7200 {PY} /verif/dst.py check {pid} --tier thorough",
                "evidence_file": f"/verif/evidence/{pid}.json",
                "replay_cmd_template": f"{PY} /verif/dst.py replay {{path}}",
                "engine": "dst",
                "level_claimed": {"category": cat, "text": text, "design_ref": ref},
                "level_note": note,
                "technique": tech,
            }
        )
    na = []
    for pid in props:
        if pid in CLAIMED:
            continue
        reason = NOT_APPLICABLE.get(pid) or PENDING.get(pid)
        assert reason, pid
        na.append({"property_id": pid, "reason": reason})
    man = {
        "version": 1,
        "setup_cmd": f"timeout 1200 {PY} /verif/dst.py selftest --seeds 60",
        "hooks": {
            "guard": "SEMUCONSULTING_PYUBX2_VERIF",
            "enable": "no hooks exist: every seam the simulator needs (datastream.read/readline, socket.socket subclass, errorhandler, sys.monitoring/settrace) is already public; the guard variable is reserved and unused",
            "baseline_off_cmd": "cd /repo && /venv/bin/python -m pytest -ra -q -p no:cacheprovider --timeout=900 --continue-on-collection-errors",
            "source_commits": [],
            "add_only": True,
        },
        "engines": [
            {
                "name": "dst",
                "path": "/verif/dst.py",
                "serves_properties": [c["property_id"] for c in checks],
                "kind_free_text": "deterministic simulation with fault injection: seeded scenario generation (peers, link faults, arrival schedules, thread schedules) separated from PRNG-free execution of the real pyubx2 code against simulated transports; constructive / relational / ledger oracles; ddmin minimisation; replay files re-executed in a fresh interpreter",
            }
        ],
        "checks": checks,
        "not_applicable": na,
        "notes": "Exit codes: 0 held, 1 VIOLATION, 2 harness error. VERIF_SEED selects the seed block; VERIF_BUDGET_S bounds the thorough tier (default 600 s). Repaired defects are listed in /verif/known_findings.json as 'fixed' (they suppress nothing). See DESIGN.md.",
    }
    path = os.path.join(HERE, "MANIFEST.json")
    with open(path, "w", encoding="utf-8") as fh:
        json.dump(man, fh, indent=1)
        fh.write("\n")
    try:
        import jsonschema  # pylint: disable=import-outside-toplevel

        jsonschema.validate(man, json.load(open("/root/.vp/MANIFEST.schema.json", encoding="utf-8")))
        print("MANIFEST.json valid;", len(checks), "checks,", len(na), "not applicable")
    except ImportError:
        print("jsonschema not available; MANIFEST.json written unvalidated")


if __name__ == "__main__":
    sys.exit(main())
