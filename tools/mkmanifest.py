#!/venv/bin/python
"""Regenerate /verif/MANIFEST.json from the table below and validate it against the schema."""
import json
import os
import sys

HERE = os.path.dirname(os.path.dirname(os.path.abspath(__file__)))
PY = "/venv/bin/python"

_NOTE = "Trusts CPython, pynmeagps/pyrtcm as the definitions of NMEA/RTCM3 acceptance, and the simulator's own sealers / checksums (self-tested against literal vectors and the repo's recorded logs). Sampled search: a clean batch is evidence with stated reach, not a proof."

CLAIMED = {
    # id: (category, technique, level text, level note, design ref)
    "C05": (
        "fault_enumeration",
        "deterministic simulation with fault injection: every single link fault (substitute/insert/delete/truncate, each also resealed) on a basket of emitted frames + seeded multi-fault sequences, delivered as datagrams to parse() and embedded in streams; own well-formedness reference as oracle",
        "Fault enumeration: the complete single-fault neighbourhood of 10 basket frames under 4 msgmodes, plus seeded multi-fault sequences over the whole message catalogue, arbitrary short byte strings and corrupted frames inside simulated streams. The oracle is independent arithmetic (own Fletcher-8, length and sync rules).",
        _NOTE,
        "DESIGN.md §4 C05",
    ),
    "C06": (
        "exploration",
        "deterministic simulation: seeded 3-source device + fault-injecting link (drop/dup/reorder/noise/boundary-preserving corruption) + SimFile/SimSocket arrival schedules; constructive oracle from the post-fault wire",
        "Seeded search over frame histories, link faults and arrival schedules against the real reader; every delivered item is compared with what the protocol's own static parser returns for the frame the simulator put on the wire.",
        _NOTE,
        "DESIGN.md §4 C06",
    ),
    "C07": (
        "exploration",
        "deterministic simulation: arbitrary/garbage/mutated wires through SimFile, SimSocket (segmentation, bufsize, close|timeout, mid-stream stall with re-reading) and SimSerial (short reads); byte-ledger invariants (slice embedding, preamble, nothing left unread); all wires up to length 4 over the frame alphabet enumerated",
        "Seeded search over byte streams, transports and non-raising reader configurations; the oracle only uses the transport's own ledger of bytes handed out and the raw items returned, so any framing strategy that satisfies the property passes.",
        _NOTE,
        "DESIGN.md §4 C07",
    ),
    "C08": (
        "exploration",
        "deterministic simulation with fault injection: firmware-variant device walking the whole message catalogue with checksum-valid payloads of every length class + link corruption + all transports and reader configurations; exception-class, inspection and step-budget (bounded liveness) oracles",
        "Seeded search over (definition x payload length x content x configuration x transport faults). Liveness is decided in steps (transport-call budget and a loop-iteration meter), so a hang is a replayable verdict. The parse() half is exercised with the frames the simulated device/link produce, under 16 option combinations each.",
        _NOTE + " One open finding (IndexError from pynmeagps on proprietary NMEA sentences with a missing first field) is listed in known_findings.json.",
        "DESIGN.md §4 C08",
    ),
    "C09": (
        "fault_enumeration",
        "deterministic simulation, crash-point enumeration: the data source dies after every byte k of each sampled wire (file EOF, socket peer close, socket silence+timeout); relational oracle against the uncut run",
        "For every sampled wire of <= 400 bytes every cut position is executed on three end conditions and compared with the uncut run on the same transport (prefix, no exception, no hang, raws inside the cut, complete frames before the cut delivered on clean wires). Wires are sampled; cut points are enumerated.",
        _NOTE,
        "DESIGN.md §4 C09",
    ),
    "C10": (
        "exploration",
        "deterministic simulation: sender task + link + SimSocket under a seeded arrival schedule and virtual clock (segmentation, coalescing, bufsize clipping, close|timeout); relational oracle vs io.BytesIO; byte-queue reference model for SocketWrapper.read/readline; all segmentations of short wires",
        "Seeded search over wires x arrival schedules x bufsize x end condition with the real SocketWrapper on a simulated socket; plus every segmentation of 10 basket wires <= 12 bytes and seeded call sequences against a byte-queue model.",
        _NOTE + " Real TCP delivery from an OS thread is replaced by the simulated sender (OS scheduling would not replay).",
        "DESIGN.md §4 C10",
    ),
    "C11": (
        "exploration",
        "deterministic simulation: one seeded wire (incl. corrupted and nested frames of the filtered-out protocols) executed under all 8 protocol masks x parsing on/off on a seeded transport; relational oracle",
        "Seeded search over wires and transports; each wire is executed 16 times and the runs are related by the filter relation, with the simulator's own preamble classifier deciding protocol membership.",
        _NOTE,
        "DESIGN.md §4 C11",
    ),
    "C12": (
        "exploration",
        "deterministic simulation with fault injection: one seeded wire executed under ERR_IGNORE, ERR_LOG (+/- handler) and ERR_RAISE; unified DELIVER/ERROR event log; constructive oracle for boundary-preserving corruption, relational oracle for arbitrary wires",
        "Seeded search over histories of good and corrupted frames and arbitrary wires; under ERR_LOG the event log must equal the per-frame verdicts of the protocol parsers (exactly one error per rejected frame, with that exception), and the other policies are related to it.",
        _NOTE,
        "DESIGN.md §4 C12",
    ),
    "C13": (
        "exploration",
        "deterministic simulation: seeded operation histories (incl. aborted operations and set/del attempts) and 2-4 real threads under a baton-passing scheduler (sys.settrace line / sys.monitoring instruction pre-emption) in pristine forked processes; cold-golden, stdout/stderr fd ledger and shared-table digest oracles",
        "Seeded search over operation histories and thread interleavings whose every switch is chosen (and recorded) by the simulator; each result is compared with the same operation executed first in a pristine process; fd-level and sys-level output ledgers and a digest of the shared tables are checked after every operation.",
        _NOTE + " Interleavings are explored at line (and, in thorough runs, bytecode-instruction) granularity; atomicity of single bytecodes is assumed.",
        "DESIGN.md §4 C13",
    ),
}

NOT_APPLICABLE = {
    "C01": "pure function of (frame bytes, msgmode, parsebitfield): no stream, schedule, clock, fault or history enters it; deciding it is input enumeration, not simulation (DESIGN.md §6)",
    "C02": "attribute decoding is a pure function of (definition, payload bytes, parsebitfield); deciding it is enumeration over the definition tables, not simulation (DESIGN.md §6)",
    "C03": "keyword construction -> payload is a pure function of the keyword values; the open question is scaling arithmetic, not scheduling or faults (DESIGN.md §6)",
    "C04": "well-formedness of serialize() is a pure function of constructor arguments; 'accepted by parse' composes two pure functions (DESIGN.md §6)",
    "C14": "config_set/del/poll layout and CFG-VALGET/VALSET parsing are pure functions of (keys, values, header fields) and a static table (DESIGN.md §6)",
    "C15": "refusal of bad keyword values is a pure function of the values supplied; no schedule, fault or history (DESIGN.md §6)",
    "C16": "a statement about the shipped data tables as they stand (static table walk); nothing executes over time (DESIGN.md §6)",
    "C17": "SETPOLL mode detection is a pure function of the frame's bytes (DESIGN.md §6)",
    "C18": "scalar encode/decode and helper round-trips are pure functions of their arguments (DESIGN.md §6)",
}

_P = "claimed by DESIGN.md as a simulation target; its check is still under construction in this tree, so no verdict is offered yet"
PENDING = {}


def main():
    props = [json.loads(l)["id"] for l in open(os.path.join(HERE, "properties.jsonl"), encoding="utf-8")]
    checks = []
    for pid in props:
        if pid not in CLAIMED:
            continue
        cat, tech, text, note, ref = CLAIMED[pid]
        checks.append(
            {
                "property_id": pid,
                "quick_cmd": f"timeout 1500 {PY} /verif/dst.py check {pid} --tier quick",
                "thorough_cmd": f"timeout 7200 {PY} /verif/dst.py check {pid} --tier thorough",
                "evidence_file": f"/verif/evidence/{pid}.json",
                "replay_cmd_template": f"{PY} /verif/dst.py replay {{path}}",
                "engine": "dst",
                "level_claimed": {"category": cat, "text": text, "design_ref": ref},
                "level_note": note,
                "technique": tech,
            }
        )
    na = []
    for pid in props:
        if pid in CLAIMED:
            continue
        reason = NOT_APPLICABLE.get(pid) or PENDING.get(pid)
        assert reason, pid
        na.append({"property_id": pid, "reason": reason})
    man = {
        "version": 1,
        "setup_cmd": f"timeout 1200 {PY} /verif/dst.py selftest --seeds 60",
        "hooks": {
            "guard": "SEMUCONSULTING_PYUBX2_VERIF",
            "enable": "no hooks exist: every seam the simulator needs (datastream.read/readline, socket.socket subclass, errorhandler, sys.monitoring/settrace) is already public; the guard variable is reserved and unused",
            "baseline_off_cmd": "cd /repo && /venv/bin/python -m pytest -ra -q -p no:cacheprovider --timeout=900 --continue-on-collection-errors",
            "source_commits": [],
            "add_only": True,
        },
        "engines": [
            {
                "name": "dst",
                "path": "/verif/dst.py",
                "serves_properties": [c["property_id"] for c in checks],
                "kind_free_text": "deterministic simulation with fault injection: seeded scenario generation (peers, link faults, arrival schedules, thread schedules) separated from PRNG-free execution of the real pyubx2 code against simulated transports; constructive / relational / ledger oracles; ddmin minimisation; replay files re-executed in a fresh interpreter",
            }
        ],
        "checks": checks,
        "not_applicable": na,
        "notes": "Exit codes: 0 held, 1 VIOLATION, 2 harness error. VERIF_SEED selects the seed block; VERIF_BUDGET_S bounds the thorough tier (default 600 s). Repaired defects are listed in /verif/known_findings.json as 'fixed' (they suppress nothing). See DESIGN.md.",
    }
    path = os.path.join(HERE, "MANIFEST.json")
    with open(path, "w", encoding="utf-8") as fh:
        json.dump(man, fh, indent=1)
        fh.write("\n")
    try:
        import jsonschema  # pylint: disable=import-outside-toplevel

        jsonschema.validate(man, json.load(open("/root/.vp/MANIFEST.schema.json", encoding="utf-8")))
        print("MANIFEST.json valid;", len(checks), "checks,", len(na), "not applicable")
    except ImportError:
        print("jsonschema not available; MANIFEST.json written unvalidated")


if __name__ == "__main__":
    sys.exit(main())
