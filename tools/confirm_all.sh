#!/bin/bash
# usage: tools/confirm_all.sh <outfile> [dirs...]  - applies every seeded patch to /repo itself (tools/mutant.sh), runs the
# quick check of the property it breaks, undoes it, and records the outcome.  /repo must not be in use by another run.
out=$1; shift
dirs=${@:-/verif/seeded/*/}
: > $out
for d in $dirs; do
  n=$(basename $d)
  case $n in RF*|BC*) ids="C05 C06 C07 C08 C09 C10 C11 C12 C13";; X*) ids=$(grep -o '"breaks_property": "C[0-9]*"' $d/meta.json | grep -o 'C[0-9]*');; R01*) ids="C06 C07";; R02*) ids="C05";; R03*|R04*|R07*) ids="C08";; R05*|R06*|T1*) ids="C13";; *) ids=${n%%-*};; esac
  r=$(/verif/tools/mutant.sh $d/patch.diff $ids 2>&1 | grep -E "^== |clause=" | tr '\n' ' ' | cut -c1-400)
  echo "$n: $r" >> $out
done
