#!/bin/bash
# usage: tools/mutant.sh <patch.diff> <ID> [<ID>...]   - apply a patch to /repo, run quick checks, always undo.
# env QUICK_OVERRIDE: extra args
patch="$1"; shift
export VERIF_EVIDENCE_DIR=/tmp/w/mut-evidence VERIF_REPLAY_DIR=/tmp/w/mut-replays
cd /repo || exit 2
if [ -n "$(git status --porcelain --untracked-files=no)" ]; then echo "/repo not clean"; exit 2; fi
git apply "$patch" || { echo "patch does not apply"; exit 2; }
trap 'git -C /repo checkout -- . ' EXIT
for id in "$@"; do
  out=$(cd /verif && timeout 1500 /venv/bin/python dst.py check "$id" --tier quick 2>&1)
  rc=$?
  echo "== $id rc=$rc $(echo "$out" | grep -c '^VIOLATION') violation lines"
  echo "$out" | grep -E "^VIOLATION|clause=|HARNESS" | head -6
done
